/*
 * h_map.c -- harness of property C19 (xcm_attr_map is a finite map; attribute paths are canonical).
 *
 * Three exhaustive searches, every one against a deliberately boring reference written here:
 *
 *  --bfs     explicit-state breadth-first search over the contents of two attribute maps
 *            (M1, and M2 = second map / clone, or absent).  The state is wholly visible through
 *            the public API, so states are de-duplicated by their canonical form (per key:
 *            absent or one of the 10 alphabet values).  Live C objects cannot be copied, so a
 *            state is rebuilt for every transition by replaying a shortest operation history on
 *            fresh objects; the replayed canonical form must equal the stored one.  After every
 *            transition ALL observers are compared with the reference association list.
 *  --paths   every string of length <= L over an 11 letter alphabet, plus the families
 *            pre + unit^k + suf, through attr_path_parse/print/equal in both parse modes, against an
 *            independent three-valued recogniser of the documented name syntax.
 *  --large   scripted operation sequences over large key sets (hundreds / thousands of keys,
 *            long names, a 1 MB value) with the same observers.
 *
 * Work is done in forked children; a sanitizer abort (or a call that spins: CPU-time watchdog) in a child is a *finding* attributed to
 * the exact (state, operation) or (string, mode, call) in progress, and the search goes on after it.
 * An operation instance that crashed QK times is quarantined (skipped and counted) so that one defect
 * cannot cost millions of process deaths.
 *
 *  --replay-ops 'op,op,...'   and   --one-path 'string'   re-run a single case in-process.
 *
 * Output: one JSON object per line on stdout (kinds: stats, finding, crash, sample, broke, done).
 */
#include <ctype.h>
#include <errno.h>
#include <fcntl.h>
#include <inttypes.h>
#include <math.h>
#include <signal.h>
#include <stdarg.h>
#include <stdbool.h>
#include <stdint.h>
#include <stdio.h>
#include <stdlib.h>
#include <string.h>
#include <sys/mman.h>
#include <sys/prctl.h>
#include <sys/resource.h>
#include <sys/stat.h>
#include <sys/wait.h>
#include <time.h>
#include <unistd.h>

#include <xcm_attr_map.h>
#include <xcm_attr_types.h>
#include "attr_path.h"

#if defined(__has_feature)
#if __has_feature(address_sanitizer)
#define HAVE_ASAN 1
#endif
#endif
#if defined(__SANITIZE_ADDRESS__)
#define HAVE_ASAN 1
#endif
#ifdef HAVE_ASAN
#include <sanitizer/allocator_interface.h>
#endif

/* ------------------------------------------------------------------------------------------ */
/* small utilities                                                                            */
/* ------------------------------------------------------------------------------------------ */

static double now_s(void)
{
    struct timespec ts;
    clock_gettime(CLOCK_MONOTONIC, &ts);
    return ts.tv_sec + ts.tv_nsec / 1e9;
}

/* bytes currently allocated from the heap (0 when not built with ASan: leak observer disabled) */
static size_t heap_bytes(void)
{
#ifdef HAVE_ASAN
    return __sanitizer_get_current_allocated_bytes();
#else
    return 0;
#endif
}

/* Watchdog in CPU time, not wall-clock time (the machine may be heavily loaded): the process gets SIGXCPU
   if it burns more than s further CPU seconds before the next call.  Nothing here can block, so a call that
   does not return is a call that spins. */
static void watchdog(int s)
{
    struct rusage ru;
    struct rlimit rl;
    if (getrusage(RUSAGE_SELF, &ru) != 0 || getrlimit(RLIMIT_CPU, &rl) != 0)
        return;
    rl.rlim_cur = (rlim_t)(ru.ru_utime.tv_sec + ru.ru_stime.tv_sec + 2 + s);
    if (rl.rlim_max != RLIM_INFINITY && rl.rlim_cur > rl.rlim_max)
        rl.rlim_cur = rl.rlim_max;
    setrlimit(RLIMIT_CPU, &rl);
}

static void die(const char *fmt, ...)
{
    va_list ap;
    va_start(ap, fmt);
    fprintf(stderr, "h_map: ");
    vfprintf(stderr, fmt, ap);
    fprintf(stderr, "\n");
    va_end(ap);
    _exit(2);
}

static void *xmalloc(size_t n)
{
    void *p = malloc(n ? n : 1);
    if (p == NULL)
        die("out of memory");
    return p;
}

/* A copy in a heap block that ends exactly at the last byte, so that the sanitizer sees any
   over-read of a name or a value handed to the library.  (malloc(0) is a valid 0 byte block.) */
static void *exact_dup(const void *src, size_t n)
{
    unsigned char *p = malloc(n);
    if (p == NULL)
        die("out of memory");
    if (n > 0)
        memcpy(p, src, n);
    return p;
}

/* overwrite and release a buffer the library was supposed to have copied from */
static void scribble_free(void *p, size_t n, int pattern)
{
    if (n > 0)
        memset(p, pattern, n);
    free(p);
}

static void json_str(FILE *f, const char *s)
{
    fputc('"', f);
    for (; *s; s++) {
        unsigned char c = (unsigned char)*s;
        if (c == '"' || c == '\\')
            fprintf(f, "\\%c", c);
        else if (c < 0x20 || c >= 0x7f)
            fprintf(f, "\\u%04x", c);
        else
            fputc(c, f);
    }
    fputc('"', f);
}

/* ------------------------------------------------------------------------------------------ */
/* memory shared between the supervisor and its forked workers                                 */
/* ------------------------------------------------------------------------------------------ */

#define MAXW 64          /* worker slots */
#define MAXF 24          /* distinct findings kept per slot */
#define NCLASS_MAX 4096  /* quarantine classes */
#define QK 3             /* crashes after which an operation instance is quarantined */

enum {
    C_STATES, C_TRANS, C_VALID, C_OBS, C_DISABLED, C_QSKIP, C_REBUILDS, C_LEAKCHK,
    C_PEVAL, C_PCALLS, C_PACC, C_PREJ, C_PEITHER_ACC, C_PEITHER_REJ, C_PMUST_ACC, C_PMUST_REJ,
    C_PNONTRIV, C_LOPS, C_LOBS, C_LDONE, C_N
};

struct finding {
    char sig[160];
    char text[900];
    char rkind;           /* 'o' = operation history, 'p' = path string */
    char replay[1400];
    int root;             /* paths: -1 both, 0 relative, 1 root */
    uint64_t count;
};

struct slot {
    volatile uint64_t pos_major;  /* frontier index / input index in progress */
    volatile int pos_minor;       /* operation index / parse mode in progress */
    volatile int stage;           /* library call in progress (paths, large scripts) */
    uint64_t c[C_N];
    int nf;
    struct finding f[MAXF];
    uint64_t either_why[16];      /* tallies of accepted "either" inputs by reason */
    char broke[300];
};

struct shared {
    volatile int stop;
    volatile int quarantine[NCLASS_MAX];
    struct slot slot[MAXW];
};

static struct shared *SH;
static struct slot *SL;           /* this process' slot */
static struct slot solo_slot;     /* used by the in-process replay modes */

static void *shared_alloc(size_t n)
{
    void *p = mmap(NULL, n, PROT_READ | PROT_WRITE, MAP_SHARED | MAP_ANONYMOUS, -1, 0);
    if (p == MAP_FAILED)
        die("mmap(%zu) failed: %s", n, strerror(errno));
    return p;
}

/* record a finding in this process' slot (de-duplicated by signature) */
static void add_finding(const char *sig, char rkind, const char *replay, int root,
                        const char *fmt, ...)
{
    struct slot *sl = SL;
    for (int i = 0; i < sl->nf; i++)
        if (strcmp(sl->f[i].sig, sig) == 0) {
            sl->f[i].count++;
            return;
        }
    if (sl->nf == MAXF)
        return;
    struct finding *f = &sl->f[sl->nf];
    memset(f, 0, sizeof *f);
    snprintf(f->sig, sizeof f->sig, "%s", sig);
    va_list ap;
    va_start(ap, fmt);
    vsnprintf(f->text, sizeof f->text, fmt, ap);
    va_end(ap);
    f->rkind = rkind;
    snprintf(f->replay, sizeof f->replay, "%s", replay);
    f->root = root;
    f->count = 1;
    sl->nf++;   /* last: a crash half way leaves no half-written record visible */
}

static void set_broke(const char *fmt, ...)
{
    va_list ap;
    va_start(ap, fmt);
    if (SL->broke[0] == 0)
        vsnprintf(SL->broke, sizeof SL->broke, fmt, ap);
    va_end(ap);
}

/* ------------------------------------------------------------------------------------------ */
/* the value alphabet: 5 types x 2 values                                                       */
/* ------------------------------------------------------------------------------------------ */

#define NV 10
struct val {
    const char *name;
    enum xcm_attr_type type;
    size_t len;
    const unsigned char *bytes;
};
static struct val V[NV];

static bool v_b0 = false, v_b1 = true;
static int64_t v_i0 = INT64_MIN, v_i1 = 0x0102030405060708LL;
static double v_d0, v_d1;                               /* -0.0 and a NaN with a payload */
static const char v_s0[] = "";                          /* same bytes as bool false: the type matters */
static const char v_s1[] = "x.y[1]=\377\001 z";
static unsigned char v_bin0[1];                         /* zero-length value (pointer must be non-NULL) */
static unsigned char v_bin1[4096];

static void init_values(void)
{
    uint64_t negzero = 0x8000000000000000ULL, nan = 0x7ff8000000000abcULL;
    memcpy(&v_d0, &negzero, 8);
    memcpy(&v_d1, &nan, 8);
    for (size_t j = 0; j < sizeof v_bin1; j++)
        v_bin1[j] = (unsigned char)((j * 131u + (j >> 8) * 17u) & 0xff);  /* has NULs, starts with NUL */
    struct val t[NV] = {
        { "bool0", xcm_attr_type_bool, sizeof(bool), (const unsigned char *)&v_b0 },
        { "bool1", xcm_attr_type_bool, sizeof(bool), (const unsigned char *)&v_b1 },
        { "int0", xcm_attr_type_int64, 8, (const unsigned char *)&v_i0 },
        { "int1", xcm_attr_type_int64, 8, (const unsigned char *)&v_i1 },
        { "dbl0", xcm_attr_type_double, 8, (const unsigned char *)&v_d0 },
        { "dbl1", xcm_attr_type_double, 8, (const unsigned char *)&v_d1 },
        { "str0", xcm_attr_type_str, sizeof v_s0, (const unsigned char *)v_s0 },
        { "str1", xcm_attr_type_str, sizeof v_s1, (const unsigned char *)v_s1 },
        { "bin0", xcm_attr_type_bin, 0, v_bin0 },
        { "bin1", xcm_attr_type_bin, sizeof v_bin1, v_bin1 },
    };
    memcpy(V, t, sizeof t);
}

static const char *type_name(enum xcm_attr_type t)
{
    switch (t) {
    case xcm_attr_type_bool: return "bool";
    case xcm_attr_type_int64: return "int64";
    case xcm_attr_type_double: return "double";
    case xcm_attr_type_str: return "str";
    case xcm_attr_type_bin: return "bin";
    default: return "?";
    }
}

/* ------------------------------------------------------------------------------------------ */
/* the reference model: a plain association list                                               */
/* ------------------------------------------------------------------------------------------ */

struct ment {
    char *name;
    enum xcm_attr_type type;
    size_t len;
    unsigned char *bytes;
};
struct model {
    bool present;
    size_t n, cap;
    struct ment *e;
};

static void m_init(struct model *m, bool present)
{
    m->present = present;
    m->n = m->cap = 0;
    m->e = NULL;
}

static struct ment *m_find(const struct model *m, const char *name)
{
    for (size_t i = 0; i < m->n; i++)
        if (strcmp(m->e[i].name, name) == 0)
            return &m->e[i];
    return NULL;
}

static void m_del(struct model *m, const char *name)
{
    struct ment *e = m_find(m, name);
    if (e == NULL)
        return;
    free(e->name);
    free(e->bytes);
    *e = m->e[m->n - 1];
    m->n--;
}

static void m_add(struct model *m, const char *name, enum xcm_attr_type type, const void *bytes,
                  size_t len)
{
    /* copy first: bytes may belong to the entry about to be replaced */
    unsigned char *copy = xmalloc(len);
    memcpy(copy, bytes, len);
    m_del(m, name);
    if (m->n == m->cap) {
        m->cap = m->cap ? 2 * m->cap : 4;
        m->e = realloc(m->e, m->cap * sizeof *m->e);
        if (m->e == NULL)
            die("out of memory");
    }
    struct ment *e = &m->e[m->n++];
    e->name = strdup(name);
    e->type = type;
    e->len = len;
    e->bytes = copy;
}

static void m_clear(struct model *m)
{
    for (size_t i = 0; i < m->n; i++) {
        free(m->e[i].name);
        free(m->e[i].bytes);
    }
    free(m->e);
    m_init(m, false);
}

static void m_add_all(struct model *dst, const struct model *src)
{
    if (dst == src)
        return;
    for (size_t i = 0; i < src->n; i++)
        m_add(dst, src->e[i].name, src->e[i].type, src->e[i].bytes, src->e[i].len);
}

static void m_clone(struct model *dst, const struct model *src)
{
    m_clear(dst);
    m_init(dst, true);
    m_add_all(dst, src);
}

static bool m_equal(const struct model *a, const struct model *b)
{
    if (a->n != b->n)
        return false;
    for (size_t i = 0; i < a->n; i++) {
        const struct ment *x = &a->e[i], *y = m_find(b, x->name);
        if (y == NULL || x->type != y->type || x->len != y->len ||
            memcmp(x->bytes, y->bytes, x->len) != 0)
            return false;
    }
    return true;
}

/* ------------------------------------------------------------------------------------------ */
/* observers: everything the public API shows of a map, compared with the model                */
/* ------------------------------------------------------------------------------------------ */

/* context of the comparison in progress: what to print and how to replay it */
struct octx {
    const char *replay;      /* operation history incl. the last operation (or script name) */
    const char *after;       /* kind of the last operation */
    int mismatches;
};

static void mismatch(struct octx *cx, const char *observer, const char *fmt, ...)
{
    char sig[160], detail[500];
    va_list ap;
    va_start(ap, fmt);
    vsnprintf(detail, sizeof detail, fmt, ap);
    va_end(ap);
    /* only the first failing observer of a transition (a script) is reported: the later ones are, as a
       rule, consequences of it; observers run in a fixed order, so the choice is deterministic */
    if (cx->mismatches++ > 0)
        return;
    snprintf(sig, sizeof sig, "C19/map/%s/after=%s", observer, cx->after);
    add_finding(sig, 'o', cx->replay, -1, "after operation kind '%s': %s; history: %s",
                cx->after, detail, cx->replay);
}

/* library call in progress in a map search (SL->stage), named in the signature of a process death */
enum { MC_IDLE, MC_REBUILD, MC_APPLY, MC_SIZE, MC_EXISTS, MC_GET, MC_TYPED_GET, MC_FOREACH, MC_EQUAL, MC_DESTROY, MC_N };
static const char *const MC_NAME[MC_N] = {
    "idle", "history-replay", "operation", "xcm_attr_map_size", "xcm_attr_map_exists", "xcm_attr_map_get",
    "xcm_attr_map_get_<type>", "xcm_attr_map_foreach", "xcm_attr_map_equal", "xcm_attr_map_destroy"
};
#define MCALL(x) (SL->stage = (x))

#define OBS(cx, cond, observer, ...) do {                 \
        SL->c[C_OBS]++;                                    \
        if (!(cond))                                       \
            mismatch(cx, observer, __VA_ARGS__);           \
    } while (0)

struct seen {
    const char *name;
    enum xcm_attr_type type;
    const void *val;
    size_t len;
};
struct collector {
    struct seen *v;
    size_t n, cap;
    void *cookie_ok;
    bool cookie_bad;
};

static void collect_cb(const char *name, enum xcm_attr_type type, const void *val, size_t len,
                       void *user)
{
    struct collector *c = user;
    if (c->cookie_ok != c)
        c->cookie_bad = true;
    if (c->n < c->cap) {
        c->v[c->n].name = name;
        c->v[c->n].type = type;
        c->v[c->n].val = val;
        c->v[c->n].len = len;
    }
    c->n++;
}

/* names that are never added: lookups must miss */
static const char *const MISS_PROBES[] = { "zz", "", "A", "a.", NULL };

static void observe_key(const struct xcm_attr_map *m, const struct model *md, const char *name,
                        const char *tag, struct octx *cx)
{
    const struct ment *e = m_find(md, name);
    bool has = e != NULL;

    MCALL(MC_EXISTS);
    OBS(cx, xcm_attr_map_exists(m, name) == has, "exists", "%s: exists(\"%s\") != %d", tag, name, has);

    enum xcm_attr_type t = (enum xcm_attr_type)99;
    size_t l = (size_t)-7;
    MCALL(MC_GET);
    const void *p = xcm_attr_map_get(m, name, &t, &l);
    const void *p2 = xcm_attr_map_get(m, name, NULL, NULL);
    OBS(cx, (p != NULL) == has, "get-presence", "%s: get(\"%s\") %s but the model %s it", tag, name,
        p ? "returns a value" : "returns NULL", has ? "has" : "does not have");
    OBS(cx, (p2 != NULL) == has, "get-presence", "%s: get(\"%s\",NULL,NULL) presence wrong", tag, name);
    if (has && p != NULL) {
        OBS(cx, t == e->type, "get-type", "%s: get(\"%s\") type %s, model %s", tag, name,
            type_name(t), type_name(e->type));
        OBS(cx, l == e->len, "get-len", "%s: get(\"%s\") length %zu, model %zu", tag, name, l, e->len);
        if (l == e->len)
            OBS(cx, memcmp(p, e->bytes, e->len) == 0, "get-bytes",
                "%s: get(\"%s\") bytes differ from what was supplied (%s, %zu bytes)", tag, name,
                type_name(e->type), e->len);
    }

    /* the five typed getters: a value iff the type matches */
    MCALL(MC_TYPED_GET);
    const void *tp[5] = {
        xcm_attr_map_get_bool(m, name), xcm_attr_map_get_int64(m, name),
        xcm_attr_map_get_double(m, name), xcm_attr_map_get_str(m, name),
        xcm_attr_map_get_bin(m, name)
    };
    static const enum xcm_attr_type tt[5] = {
        xcm_attr_type_bool, xcm_attr_type_int64, xcm_attr_type_double, xcm_attr_type_str,
        xcm_attr_type_bin
    };
    for (int i = 0; i < 5; i++) {
        bool want = has && e->type == tt[i];
        OBS(cx, (tp[i] != NULL) == want, want ? "typed-get-null-on-match" : "typed-get-not-null-on-mismatch",
            "%s: get_%s(\"%s\") %s, model entry is %s", tag, type_name(tt[i]), name,
            tp[i] ? "non-NULL" : "NULL", has ? type_name(e->type) : "absent");
        if (want && tp[i] != NULL) {
            OBS(cx, memcmp(tp[i], e->bytes, e->len) == 0, "typed-get-bytes",
                "%s: get_%s(\"%s\") bytes differ", tag, type_name(tt[i]), name);
            if (tt[i] == xcm_attr_type_str)
                OBS(cx, strlen(tp[i]) + 1 == e->len, "typed-get-bytes",
                    "%s: get_str(\"%s\") strlen+1 != stored length", tag, name);
        }
    }
}

/* probes == NULL: the model's own names are the hit probes */
static void observe_map(const struct xcm_attr_map *m, const struct model *md,
                        const char *const *key_probes, int nkey_probes, const char *tag,
                        struct octx *cx)
{
    MCALL(MC_SIZE);
    size_t sz = xcm_attr_map_size(m);
    OBS(cx, sz == md->n, "size", "%s: size %zu, model %zu", tag, sz, md->n);

    if (key_probes != NULL)
        for (int i = 0; i < nkey_probes; i++)
            observe_key(m, md, key_probes[i], tag, cx);
    else
        for (size_t i = 0; i < md->n; i++) {
            char *nm = strdup(md->e[i].name);   /* model entries may move; keep a stable copy */
            observe_key(m, md, nm, tag, cx);
            free(nm);
        }
    for (int i = 0; MISS_PROBES[i] != NULL; i++)
        observe_key(m, md, MISS_PROBES[i], tag, cx);

    /* foreach: every entry exactly once, nothing else */
    struct collector c = { .cap = md->n + 8 };
    c.v = xmalloc(c.cap * sizeof *c.v);
    c.cookie_ok = &c;
    MCALL(MC_FOREACH);
    xcm_attr_map_foreach(m, collect_cb, &c);
    OBS(cx, !c.cookie_bad, "foreach-user-pointer", "%s: foreach did not pass the user pointer through", tag);
    OBS(cx, c.n == md->n, "foreach-count", "%s: foreach visited %zu entries, model has %zu", tag, c.n, md->n);
    size_t nseen = c.n < c.cap ? c.n : c.cap;
    for (size_t i = 0; i < md->n; i++) {
        const struct ment *e = &md->e[i];
        int hits = 0, good = 0;
        for (size_t j = 0; j < nseen; j++)
            if (strcmp(c.v[j].name, e->name) == 0) {
                hits++;
                if (c.v[j].type == e->type && c.v[j].len == e->len &&
                    memcmp(c.v[j].val, e->bytes, e->len) == 0)
                    good++;
            }
        OBS(cx, hits == 1, "foreach-multiset", "%s: foreach visited \"%s\" %d times", tag, e->name, hits);
        OBS(cx, hits != 1 || good == 1, "foreach-value", "%s: foreach value of \"%s\" differs from the model",
            tag, e->name);
    }
    for (size_t j = 0; j < nseen; j++)
        OBS(cx, m_find(md, c.v[j].name) != NULL, "foreach-multiset",
            "%s: foreach visited \"%s\" which the model does not have", tag, c.v[j].name);
    free(c.v);

    MCALL(MC_EQUAL);
    OBS(cx, xcm_attr_map_equal(m, m), "equal-reflexive", "%s: equal(m, m) is false", tag);
}

static void observe_equal(const struct xcm_attr_map *a, const struct model *ma,
                          const struct xcm_attr_map *b, const struct model *mb, struct octx *cx)
{
    bool want = m_equal(ma, mb);
    MCALL(MC_EQUAL);
    bool ab = xcm_attr_map_equal(a, b), ba = xcm_attr_map_equal(b, a);
    OBS(cx, ab == want, want ? "equal/impl=false,model=true" : "equal/impl=true,model=false",
        "equal(A,B) = %d but the contents are %s", ab, want ? "equal" : "different");
    OBS(cx, ba == want, want ? "equal/impl=false,model=true" : "equal/impl=true,model=false",
        "equal(B,A) = %d but the contents are %s", ba, want ? "equal" : "different");
}

/* ------------------------------------------------------------------------------------------ */
/* BFS alphabet                                                                                */
/* ------------------------------------------------------------------------------------------ */

#define MAXKEYS 3
static const char *const ALLKEYS[MAXKEYS] = { "a", "ab", "b" };   /* "a" is a prefix of "ab" */
static int NKEYS = 2;
static uint32_t NM;        /* 11^NKEYS contents of one map */
static uint32_t NSTATES;   /* NM * (NM + 1): M2 may be absent */

enum opkind { OP_ADD, OP_ALIAS, OP_DEL, OP_CLONE, OP_ADDALL, OP_DESTROY2 };
static const char *const KIND_NAME[] = { "add", "add-aliased-value", "del", "clone", "add_all", "destroy" };

struct op {
    enum opkind kind;
    int map, key;          /* target */
    int vid;               /* OP_ADD: value */
    int typed;             /* 0: xcm_attr_map_add / xcm_attr_map_get; 1: the typed functions */
    int smap, skey;        /* OP_ALIAS: where the value pointer comes from; OP_ADDALL: smap */
    char name[48];
};
#define MAXOPS 256
static struct op OPS[MAXOPS];
static int NOPS;

static void build_ops(void)
{
    NOPS = 0;
    for (int m = 0; m < 2; m++)
        for (int k = 0; k < NKEYS; k++)
            for (int v = 0; v < NV; v++)
                for (int t = 0; t < 2; t++) {
                    struct op *o = &OPS[NOPS++];
                    *o = (struct op) { .kind = OP_ADD, .map = m, .key = k, .vid = v, .typed = t };
                    snprintf(o->name, sizeof o->name, "add%d:%s:%s:%c", m + 1, ALLKEYS[k], V[v].name,
                             t ? 't' : 'g');
                }
    for (int m = 0; m < 2; m++)
        for (int k = 0; k < NKEYS; k++)
            for (int sm = 0; sm < 2; sm++)
                for (int sk = 0; sk < NKEYS; sk++)
                    for (int t = 0; t < 2; t++) {
                        struct op *o = &OPS[NOPS++];
                        *o = (struct op) { .kind = OP_ALIAS, .map = m, .key = k, .typed = t,
                                           .smap = sm, .skey = sk };
                        snprintf(o->name, sizeof o->name, "alias%d:%s<-%d:%s:%c", m + 1, ALLKEYS[k],
                                 sm + 1, ALLKEYS[sk], t ? 't' : 'g');
                    }
    for (int m = 0; m < 2; m++)
        for (int k = 0; k < NKEYS; k++) {
            struct op *o = &OPS[NOPS++];
            *o = (struct op) { .kind = OP_DEL, .map = m, .key = k };
            snprintf(o->name, sizeof o->name, "del%d:%s", m + 1, ALLKEYS[k]);
        }
    {
        struct op *o = &OPS[NOPS++];
        *o = (struct op) { .kind = OP_CLONE };
        snprintf(o->name, sizeof o->name, "clone");
    }
    for (int d = 0; d < 2; d++)
        for (int s = 0; s < 2; s++) {
            struct op *o = &OPS[NOPS++];
            *o = (struct op) { .kind = OP_ADDALL, .map = d, .smap = s };
            snprintf(o->name, sizeof o->name, "addall%d%d", d + 1, s + 1);
        }
    {
        struct op *o = &OPS[NOPS++];
        *o = (struct op) { .kind = OP_DESTROY2, .map = 1 };
        snprintf(o->name, sizeof o->name, "destroy2");
    }
}

static int op_by_name(const char *name)
{
    for (int i = 0; i < NOPS; i++)
        if (strcmp(OPS[i].name, name) == 0)
            return i;
    return -1;
}

/* the shape of an operation as it appears in a crash signature */
static const char *op_shape(const struct op *o)
{
    if (o->kind == OP_ALIAS)
        return o->map == o->smap && o->key == o->skey ? "add-aliased-value-same-entry"
                                                      : "add-aliased-value-other-entry";
    return KIND_NAME[o->kind];
}

/* ---- state codes --------------------------------------------------------------------------- */
/* one map: sum over keys of digit * 11^key, digit 0 = absent, else value id + 1.
   state: code(M1) * (NM + 1) + (code(M2) or NM when M2 is absent)                               */

static void digits_of(uint32_t c, int *d)
{
    for (int k = 0; k < NKEYS; k++) {
        d[k] = c % 11;
        c /= 11;
    }
}

static uint32_t model_map_code(const struct model *m)
{
    if (!m->present)
        return NM;
    uint32_t c = 0, mul = 1;
    for (int k = 0; k < NKEYS; k++, mul *= 11) {
        const struct ment *e = m_find(m, ALLKEYS[k]);
        if (e == NULL)
            continue;
        int vid = -1;
        for (int v = 0; v < NV; v++)
            if (V[v].type == e->type && V[v].len == e->len && memcmp(V[v].bytes, e->bytes, e->len) == 0)
                vid = v;
        if (vid < 0)
            return UINT32_MAX;
        c += (uint32_t)(vid + 1) * mul;
    }
    return c;
}

#define ALIEN UINT32_MAX
/* canonical form of a live map, read through the public API only */
static uint32_t impl_map_code(const struct xcm_attr_map *m)
{
    if (m == NULL)
        return NM;
    struct seen buf[MAXKEYS + 4];
    struct collector c = { .v = buf, .cap = MAXKEYS + 4 };
    c.cookie_ok = &c;
    MCALL(MC_FOREACH);
    xcm_attr_map_foreach(m, collect_cb, &c);
    if (c.n > (size_t)NKEYS)
        return ALIEN;
    uint32_t code = 0;
    for (size_t j = 0; j < c.n; j++) {
        int k, vid = -1;
        uint32_t mul = 1;
        for (k = 0; k < NKEYS && strcmp(ALLKEYS[k], buf[j].name) != 0; k++)
            mul *= 11;
        if (k == NKEYS)
            return ALIEN;
        for (int v = 0; v < NV; v++)
            if (V[v].type == buf[j].type && V[v].len == buf[j].len &&
                memcmp(V[v].bytes, buf[j].val, buf[j].len) == 0)
                vid = v;
        if (vid < 0 || (code / mul) % 11 != 0)
            return ALIEN;
        code += (uint32_t)(vid + 1) * mul;
    }
    return code;
}

static uint32_t state_code(uint32_t c1, uint32_t c2)
{
    if (c1 == ALIEN || c2 == ALIEN)
        return ALIEN;
    return c1 * (NM + 1) + c2;
}

static void model_decode(uint32_t s, struct model md[2])
{
    uint32_t c[2] = { s / (NM + 1), s % (NM + 1) };
    for (int i = 0; i < 2; i++) {
        m_init(&md[i], c[i] != NM);
        if (c[i] == NM)
            continue;
        int d[MAXKEYS];
        digits_of(c[i], d);
        for (int k = 0; k < NKEYS; k++)
            if (d[k] != 0)
                m_add(&md[i], ALLKEYS[k], V[d[k] - 1].type, V[d[k] - 1].bytes, V[d[k] - 1].len);
    }
}

static void describe_state(uint32_t s, char *out, size_t cap)
{
    uint32_t c[2] = { s / (NM + 1), s % (NM + 1) };
    size_t n = 0;
    for (int i = 0; i < 2 && n < cap; i++) {
        n += snprintf(out + n, cap - n, "%sM%d=", i ? " " : "", i + 1);
        if (c[i] == NM) {
            n += snprintf(out + n, cap - n, "absent");
            continue;
        }
        int d[MAXKEYS];
        digits_of(c[i], d);
        n += snprintf(out + n, cap - n, "{");
        for (int k = 0, first = 1; k < NKEYS && n < cap; k++)
            if (d[k]) {
                n += snprintf(out + n, cap - n, "%s%s:%s", first ? "" : ",", ALLKEYS[k], V[d[k] - 1].name);
                first = 0;
            }
        if (n < cap)
            n += snprintf(out + n, cap - n, "}");
    }
}

/* is the operation applicable in (model) state md? */
static bool op_enabled(const struct model md[2], const struct op *o)
{
    switch (o->kind) {
    case OP_ADD:
    case OP_DEL:
        return md[o->map].present;
    case OP_ALIAS:
        return md[o->map].present && md[o->smap].present &&
            m_find(&md[o->smap], ALLKEYS[o->skey]) != NULL;
    case OP_ADDALL:
        return md[o->map].present && md[o->smap].present;
    case OP_CLONE:
    case OP_DESTROY2:
        return true;             /* destroy(NULL) is documented as allowed */
    }
    return false;
}

/* quarantine class: the operation instance, refined for aliased adds by the aliased value */
static int op_class(const struct model md[2], int opi)
{
    const struct op *o = &OPS[opi];
    int sub = 0;
    if (o->kind == OP_ALIAS) {
        const struct ment *e = m_find(&md[o->smap], ALLKEYS[o->skey]);
        for (int v = 0; e != NULL && v < NV; v++)
            if (V[v].type == e->type && V[v].len == e->len && memcmp(V[v].bytes, e->bytes, e->len) == 0)
                sub = v + 1;
    }
    return opi * 11 + sub;
}

/* ---- applying one operation to the live maps (and the model) --------------------------------- */

static void typed_add(struct xcm_attr_map *m, const char *name, enum xcm_attr_type type,
                      const void *p, size_t len)
{
    switch (type) {
    case xcm_attr_type_bool: xcm_attr_map_add_bool(m, name, *(const bool *)p); break;
    case xcm_attr_type_int64: { int64_t v; memcpy(&v, p, 8); xcm_attr_map_add_int64(m, name, v); break; }
    case xcm_attr_type_double: { double v; memcpy(&v, p, 8); xcm_attr_map_add_double(m, name, v); break; }
    case xcm_attr_type_str: xcm_attr_map_add_str(m, name, p); break;
    case xcm_attr_type_bin: xcm_attr_map_add_bin(m, name, p, len); break;
    }
}

static const void *typed_get(const struct xcm_attr_map *m, const char *name, enum xcm_attr_type type)
{
    switch (type) {
    case xcm_attr_type_bool: return xcm_attr_map_get_bool(m, name);
    case xcm_attr_type_int64: return xcm_attr_map_get_int64(m, name);
    case xcm_attr_type_double: return xcm_attr_map_get_double(m, name);
    case xcm_attr_type_str: return xcm_attr_map_get_str(m, name);
    case xcm_attr_type_bin: return xcm_attr_map_get_bin(m, name);
    }
    return NULL;
}

/* exact: names and values are handed over in exact-size heap blocks that are overwritten and freed
   right after the call (the map must own deep copies).  md may be NULL (history replay).
   Returns false when the operation could not be carried out as specified (reported by the caller). */
static bool apply_op(const struct op *o, struct xcm_attr_map *M[2], struct model *md, bool exact)
{
    const char *key = ALLKEYS[o->key];
    size_t keysz = strlen(key) + 1;
    char *nm = exact ? exact_dup(key, keysz) : (char *)key;
    bool ok = true;

    switch (o->kind) {
    case OP_ADD: {
        const struct val *v = &V[o->vid];
        void *vb = exact ? exact_dup(v->bytes, v->len) : (void *)v->bytes;
        if (o->typed)
            typed_add(M[o->map], nm, v->type, vb, v->len);
        else
            xcm_attr_map_add(M[o->map], nm, v->type, vb, v->len);
        if (exact)
            scribble_free(vb, v->len, 0xa5);
        if (md)
            m_add(&md[o->map], key, v->type, v->bytes, v->len);
        break;
    }
    case OP_ALIAS: {
        /* the value argument points into memory owned by a map -- possibly the entry being replaced */
        const char *skey = ALLKEYS[o->skey];
        enum xcm_attr_type t = 0;
        size_t l = 0;
        const void *p = xcm_attr_map_get(M[o->smap], skey, &t, &l);
        if (o->typed && p != NULL)
            p = typed_get(M[o->smap], skey, t);
        if (p == NULL) {
            ok = false;
            break;
        }
        if (md) {   /* model first: it copies before it replaces */
            const struct ment *e = m_find(&md[o->smap], skey);
            m_add(&md[o->map], key, e->type, e->bytes, e->len);
        }
        if (o->typed)
            typed_add(M[o->map], nm, t, p, l);
        else
            xcm_attr_map_add(M[o->map], nm, t, p, l);
        break;
    }
    case OP_DEL:
        xcm_attr_map_del(M[o->map], nm);
        if (md)
            m_del(&md[o->map], key);
        break;
    case OP_CLONE:
        xcm_attr_map_destroy(M[1]);
        M[1] = xcm_attr_map_clone(M[0]);
        if (md)
            m_clone(&md[1], &md[0]);
        break;
    case OP_ADDALL:
        xcm_attr_map_add_all(M[o->map], M[o->smap]);
        if (md)
            m_add_all(&md[o->map], &md[o->smap]);
        break;
    case OP_DESTROY2:
        xcm_attr_map_destroy(M[1]);
        M[1] = NULL;
        if (md)
            m_clear(&md[1]);
        break;
    }
    if (exact)
        scribble_free(nm, keysz, 0x5a);
    return ok;
}

/* compare every observer of both maps with the model */
static void observe_all(struct xcm_attr_map *M[2], struct model md[2], struct octx *cx)
{
    OBS(cx, (M[1] != NULL) == md[1].present, "presence", "M2 presence differs from the model");
    observe_map(M[0], &md[0], ALLKEYS, NKEYS, "M1", cx);
    if (M[1] != NULL && md[1].present) {
        observe_map(M[1], &md[1], ALLKEYS, NKEYS, "M2", cx);
        observe_equal(M[0], &md[0], M[1], &md[1], cx);
    }
}

/* ------------------------------------------------------------------------------------------ */
/* supervisor: W forked workers; an abnormal exit is attributed to the slot's progress marker    */
/* ------------------------------------------------------------------------------------------ */

static int W = 16;
static const char *CRASHDIR = "/tmp";
static double T_END = 1e18;          /* CLOCK_MONOTONIC deadline */
static bool deadline_hit;

/* distinct crashes, keyed by what the (unsymbolized) sanitizer report says + the shape of the input */
#define MAXCRASH 64
struct crashrec {
    char key[400];
    char shape[64];
    char opname[64];
    char rkind;
    char replay[1400];
    int root;
    char report[256];
    uint64_t count;
    uint64_t ord;          /* position of the example in the search order: the earliest one is kept */
};
static struct crashrec CR[MAXCRASH];
static int NCR;
static uint64_t total_crashes;

static pid_t SUPERVISOR_PID;     /* set before the first fork: workers and supervisor must agree on the name */

static void slot_err_path(int w, char *out, size_t cap)
{
    snprintf(out, cap, "%s/slot-%d-%d.err", CRASHDIR, (int)SUPERVISOR_PID, w);
}

/* Reduce a sanitizer report to a stable key: the bug type and the code offsets of the top frames
   (reports are unsymbolized in bulk runs; the driver symbolizes one example per key by replaying). */
static void report_key(const char *rep, int status, char *key, size_t cap)
{
    const char *p;
    size_t n = 0;
    key[0] = 0;
    if ((p = strstr(rep, "ERROR: AddressSanitizer: ")) != NULL) {
        p += strlen("ERROR: AddressSanitizer: ");
        n += snprintf(key + n, cap - n, "asan:");
        while (*p && !isspace((unsigned char)*p) && n + 1 < cap)
            key[n++] = *p++;
        key[n] = 0;
    } else if ((p = strstr(rep, "runtime error: ")) != NULL) {
        /* UBSan: "<file>:<line>:<col>: runtime error: <message>" -- digits in the message vary */
        const char *ls = p;
        while (ls > rep && ls[-1] != '\n')
            ls--;
        const char *base = ls;
        for (const char *q = ls; q < p; q++)
            if (*q == '/')
                base = q + 1;
        n += snprintf(key + n, cap - n, "ubsan:");
        for (const char *q = base; q < p - 2 && n + 1 < cap; q++)
            key[n++] = *q;
        p += strlen("runtime error: ");
        key[n++] = ' ';
        for (; *p && *p != '\n' && n + 1 < cap; p++)
            if (!isdigit((unsigned char)*p))
                key[n++] = *p;
        key[n] = 0;
        return;
    } else if (WIFSIGNALED(status)) {
        snprintf(key, cap, "signal:%d", WTERMSIG(status));
        return;
    } else {
        snprintf(key, cap, "exit:%d", WEXITSTATUS(status));
        return;
    }
    /* top frames: "(module+0xOFFSET)" */
    int frames = 0;
    for (p = rep; frames < 5 && (p = strstr(p, "+0x")) != NULL; p += 3) {
        const char *e = p + 3;
        while (isxdigit((unsigned char)*e))
            e++;
        if (*e != ')')
            continue;
        n += snprintf(key + n, cap - n, "@%.*s", (int)(e - (p + 3)), p + 3);
        frames++;
        if (n + 20 >= cap)
            break;
    }
}

static uint64_t CRASH_ORD;       /* set by the caller: where in the search order the dying case sits */

static void record_crash(int w, int status, const char *shape, const char *opname, char rkind,
                         const char *replay, int root)
{
    char path[256], rep[16384], key[400];
    slot_err_path(w, path, sizeof path);
    size_t n = 0;
    FILE *f = fopen(path, "r");
    if (f != NULL) {
        n = fread(rep, 1, sizeof rep - 1, f);
        fclose(f);
    }
    rep[n] = 0;
    report_key(rep, status, key, sizeof key);
    total_crashes++;
    for (int i = 0; i < NCR; i++)
        if (strcmp(CR[i].key, key) == 0 && strcmp(CR[i].shape, shape) == 0 &&
            strcmp(CR[i].opname, opname) == 0) {
            CR[i].count++;
            if (CRASH_ORD < CR[i].ord) {
                CR[i].ord = CRASH_ORD;
                snprintf(CR[i].replay, sizeof CR[i].replay, "%s", replay);
                CR[i].root = root;
                FILE *g = fopen(CR[i].report, "w");
                if (g != NULL) {
                    fwrite(rep, 1, n, g);
                    fclose(g);
                }
            }
            return;
        }
    if (NCR == MAXCRASH)
        return;
    struct crashrec *c = &CR[NCR++];
    memset(c, 0, sizeof *c);
    snprintf(c->key, sizeof c->key, "%s", key);
    snprintf(c->shape, sizeof c->shape, "%s", shape);
    snprintf(c->opname, sizeof c->opname, "%s", opname);
    c->rkind = rkind;
    snprintf(c->replay, sizeof c->replay, "%s", replay);
    c->root = root;
    c->count = 1;
    c->ord = CRASH_ORD;
    snprintf(c->report, sizeof c->report, "%s/crash-%d.txt", CRASHDIR, NCR);
    f = fopen(c->report, "w");
    if (f != NULL) {
        fwrite(rep, 1, n, f);
        fclose(f);
    }
}

typedef void (*worker_fn)(int w, uint64_t start_major, int start_minor);
/* called in the supervisor when worker w died; must record the crash and say where to resume */
typedef void (*crash_fn)(int w, int status, uint64_t *resume_major, int *resume_minor);

static pid_t rp_pid[MAXW];
static uint64_t rp_major[MAXW];
static int rp_minor[MAXW];

static void rp_spawn(int w, worker_fn work)
{
    SH->slot[w].pos_major = rp_major[w];
    SH->slot[w].pos_minor = rp_minor[w];
    rp_pid[w] = fork();
    if (rp_pid[w] < 0)
        die("fork failed: %s", strerror(errno));
    if (rp_pid[w] == 0) {
        /* no orphans: a worker does not outlive its supervisor */
        prctl(PR_SET_PDEATHSIG, SIGKILL);
        if (getppid() != SUPERVISOR_PID)
            _exit(0);
        /* the sanitizer report of this worker goes to a file the supervisor reads after a death */
        char path[256];
        slot_err_path(w, path, sizeof path);
        int fd = open(path, O_WRONLY | O_CREAT | O_TRUNC, 0644);
        if (fd >= 0) {
            dup2(fd, 2);
            close(fd);
        }
        SL = &SH->slot[w];
        work(w, rp_major[w], rp_minor[w]);
        _exit(0);
    }
}

static void run_parallel(worker_fn work, crash_fn on_crash, uint64_t max_crashes)
{
    int alive = 0;

    SUPERVISOR_PID = getpid();
    fflush(stdout);
    fflush(stderr);
    for (int w = 0; w < W; w++) {
        rp_major[w] = (uint64_t)w;
        rp_minor[w] = 0;
        rp_spawn(w, work);
        alive++;
    }
    while (alive > 0) {
        int status;
        pid_t p = waitpid(-1, &status, WNOHANG);
        if (p == 0) {
            if (!SH->stop && now_s() > T_END) {
                SH->stop = 1;
                deadline_hit = true;
            }
            usleep(1000);
            continue;
        }
        if (p < 0) {
            if (errno == EINTR)
                continue;
            break;
        }
        int w;
        for (w = 0; w < W && rp_pid[w] != p; w++)
            ;
        if (w == W)
            continue;
        alive--;
        rp_pid[w] = -1;
        if (WIFEXITED(status) && WEXITSTATUS(status) == 0)
            continue;
        if (WIFEXITED(status) && WEXITSTATUS(status) == 2 && SH->slot[w].broke[0])
            continue;           /* the harness itself gave up in that worker; reported at the end */
        on_crash(w, status, &rp_major[w], &rp_minor[w]);
        if (total_crashes >= max_crashes) {
            SH->stop = 1;
            if (SH->slot[0].broke[0] == 0)
                snprintf(SH->slot[0].broke, sizeof SH->slot[0].broke,
                         "more than %" PRIu64 " crashes: search stopped", max_crashes);
        }
        if (!SH->stop) {
            rp_spawn(w, work);  /* go on right after the case that died */
            alive++;
        }
    }
    for (int w = 0; w < W; w++) {
        char path[256];
        slot_err_path(w, path, sizeof path);
        unlink(path);
    }
}

/* ------------------------------------------------------------------------------------------ */
/* BFS over map states                                                                         */
/* ------------------------------------------------------------------------------------------ */

#define MAXDEPTH 64
static uint64_t *BEST;       /* shared: per state (level+1)<<40 | parent<<8 | op; UINT64_MAX = unvisited */
static uint32_t *FRONT;      /* current frontier (private to the supervisor, inherited by workers) */
static uint64_t NFRONT;
static int LEVEL;
static uint32_t ROOT_STATE;

static uint64_t pack(int level, uint32_t parent, int op)
{
    return ((uint64_t)(level + 1) << 40) | ((uint64_t)parent << 8) | (uint64_t)op;
}

/* BEST[s] = min(BEST[s], v): deterministic whatever the scheduling of the workers */
static void relax(uint32_t s, uint64_t v)
{
    uint64_t cur = __atomic_load_n(&BEST[s], __ATOMIC_RELAXED);
    while (v < cur)
        if (__atomic_compare_exchange_n(&BEST[s], &cur, v, false, __ATOMIC_RELAXED, __ATOMIC_RELAXED))
            break;
}

/* shortest operation history of a visited state, oldest first */
static int history(uint32_t s, int *hist)
{
    int n = 0, tmp[MAXDEPTH];
    while (s != ROOT_STATE) {
        uint64_t b = BEST[s];
        if (b == UINT64_MAX || n == MAXDEPTH)
            die("broken parent chain at state %u", s);
        tmp[n++] = (int)(b & 0xff);
        s = (uint32_t)((b >> 8) & 0xffffffffu);
    }
    for (int i = 0; i < n; i++)
        hist[i] = tmp[n - 1 - i];
    return n;
}

static void history_str(const int *hist, int hl, int last_op, char *out, size_t cap)
{
    size_t n = 0;
    out[0] = 0;
    for (int i = 0; i < hl && n < cap; i++)
        n += snprintf(out + n, cap - n, "%s%s", i ? "," : "", OPS[hist[i]].name);
    if (last_op >= 0 && n < cap)
        snprintf(out + n, cap - n, "%s%s", hl ? "," : "", OPS[last_op].name);
}

static void fresh_maps(struct xcm_attr_map *M[2])
{
    M[0] = xcm_attr_map_create();
    M[1] = NULL;
}

/* rebuild state s on fresh objects; false (and "broke") if the replayed canonical form differs */
static bool rebuild(uint32_t s, const int *hist, int hl, struct xcm_attr_map *M[2])
{
    MCALL(MC_REBUILD);
    fresh_maps(M);
    for (int i = 0; i < hl; i++)
        apply_op(&OPS[hist[i]], M, NULL, false);
    SL->c[C_REBUILDS]++;
    uint32_t got = state_code(impl_map_code(M[0]), impl_map_code(M[1]));
    if (got != s) {
        char h[800];
        history_str(hist, hl, -1, h, sizeof h);
        set_broke("replay divergence: history [%s] gave canonical state %u instead of %u", h, got, s);
        return false;
    }
    return true;
}

/* one transition: rebuild s, apply op with exact buffers, compare all observers, tear down, check the
   heap is back where it was.  Returns the successor's code (ALIEN if it cannot be trusted). */
static uint32_t do_transition(uint32_t s, const int *hist, int hl, int opi, int attempt)
{
    const struct op *o = &OPS[opi];
    char hs[1000];
    history_str(hist, hl, opi, hs, sizeof hs);
    struct octx cx = { .replay = hs, .after = op_shape(o) };

    size_t base = heap_bytes();
    struct xcm_attr_map *M[2];
    if (!rebuild(s, hist, hl, M))
        _exit(2);
    struct model md[2];
    model_decode(s, md);

    MCALL(MC_APPLY);
    if (!apply_op(o, M, md, true))
        mismatch(&cx, "get-presence", "the value to alias could not be looked up");
    observe_all(M, md, &cx);

    uint32_t succ = state_code(model_map_code(&md[0]), model_map_code(&md[1]));
    uint32_t isucc = state_code(impl_map_code(M[0]), impl_map_code(M[1]));
    OBS(&cx, succ == isucc, "canonical-form", "canonical form of the maps (%u) differs from the model's (%u)",
        isucc, succ);

    MCALL(MC_DESTROY);
    xcm_attr_map_destroy(M[0]);
    xcm_attr_map_destroy(M[1]);
    MCALL(MC_IDLE);
    m_clear(&md[0]);
    m_clear(&md[1]);
    size_t after = heap_bytes();
    SL->c[C_LEAKCHK]++;
    if (after != base) {
        if (attempt == 0)      /* once more: a lazy one-off allocation elsewhere is not a leak */
            return do_transition(s, hist, hl, opi, 1);
        mismatch(&cx, "leak", "%zd bytes still allocated after both maps were destroyed",
                 (ssize_t)(after - base));
    }
    return cx.mismatches ? ALIEN : succ;
}

static void bfs_worker(int w, uint64_t start_i, int start_op)
{
    int op0 = start_op;
    for (uint64_t i = start_i; i < NFRONT && !SH->stop; i += (uint64_t)W, op0 = 0) {
        uint32_t s = FRONT[i];
        int hist[MAXDEPTH];
        int hl = history(s, hist);
        struct model md[2];
        model_decode(s, md);

        watchdog(120);
        SL->pos_major = i;
        if (op0 <= 0) {
            /* the state itself: rebuild once, full observation (also of the initial state) */
            SL->pos_minor = -1;
            char hs[1000];
            history_str(hist, hl, -1, hs, sizeof hs);
            struct octx cx = { .replay = hs, .after = "rebuild" };
            struct xcm_attr_map *M[2];
            if (!rebuild(s, hist, hl, M))
                _exit(2);
            observe_all(M, md, &cx);
            MCALL(MC_DESTROY);
            xcm_attr_map_destroy(M[0]);
            xcm_attr_map_destroy(M[1]);
            MCALL(MC_IDLE);
            SL->c[C_STATES]++;
            op0 = 0;
        }
        for (int opi = op0; opi < NOPS; opi++) {
            if (!op_enabled(md, &OPS[opi])) {
                SL->c[C_DISABLED]++;
                continue;
            }
            if (SH->quarantine[op_class(md, opi)] >= QK) {
                SL->c[C_QSKIP]++;
                continue;
            }
            SL->pos_minor = opi;
            uint32_t succ = do_transition(s, hist, hl, opi, 0);
            SL->c[C_TRANS]++;
            SL->c[C_VALID]++;
            if (succ != ALIEN && succ < NSTATES)
                relax(succ, pack(LEVEL + 1, s, opi));
        }
        m_clear(&md[0]);
        m_clear(&md[1]);
    }
}

static uint64_t bfs_crashed_transitions, bfs_unexpandable_states;

static void bfs_on_crash(int w, int status, uint64_t *rm, int *rn)
{
    struct slot *sl = &SH->slot[w];
    uint64_t i = sl->pos_major;
    int opi = sl->pos_minor;
    uint32_t s = FRONT[i];
    int hist[MAXDEPTH];
    int hl = history(s, hist);
    char hs[1000];

    CRASH_ORD = ((uint64_t)LEVEL << 48) | (i << 9) | (uint64_t)(opi + 1);
    if (opi < 0) {
        /* died while rebuilding/observing an already validated history: leave the state unexpanded */
        history_str(hist, hl, -1, hs, sizeof hs);
        record_crash(w, status, "rebuild", "rebuild", 'o', hs, -1);
        bfs_unexpandable_states++;
        *rm = i + (uint64_t)W;
        *rn = 0;
        return;
    }
    struct model md[2];
    model_decode(s, md);
    int cls = op_class(md, opi);
    SH->quarantine[cls]++;
    m_clear(&md[0]);
    m_clear(&md[1]);
    history_str(hist, hl, opi, hs, sizeof hs);
    int mc = sl->stage;
    if (mc > MC_APPLY && mc < MC_N)      /* died in an observer (or the final destroy) after the operation */
        record_crash(w, status, MC_NAME[mc], "observer", 'o', hs, -1);
    else
        record_crash(w, status, op_shape(&OPS[opi]), KIND_NAME[OPS[opi].kind], 'o', hs, -1);
    bfs_crashed_transitions++;
    *rm = i;
    *rn = opi + 1;        /* the state simply has no such successor */
}

static int cmp_u32(const void *a, const void *b)
{
    uint32_t x = *(const uint32_t *)a, y = *(const uint32_t *)b;
    return x < y ? -1 : x > y;
}

static void emit_common(const char *phase);

static int run_bfs(void)
{
    NM = 1;
    for (int k = 0; k < NKEYS; k++)
        NM *= 11;
    NSTATES = NM * (NM + 1);
    ROOT_STATE = 0 * (NM + 1) + NM;           /* M1 empty, M2 absent */
    build_ops();
    if (NOPS * 11 > NCLASS_MAX)
        die("too many operations");

    BEST = shared_alloc((size_t)NSTATES * sizeof *BEST);
    memset(BEST, 0xff, (size_t)NSTATES * sizeof *BEST);
    BEST[ROOT_STATE] = pack(-1, ROOT_STATE, 255);
    FRONT = xmalloc((size_t)NSTATES * sizeof *FRONT);
    FRONT[0] = ROOT_STATE;
    NFRONT = 1;

    uint64_t visited = 1, expanded_levels = 0;
    bool frontier_empty = false;
    double t0 = now_s();
    char lv[600] = "";
    size_t lvn = 0;

    for (LEVEL = 0; ; LEVEL++) {
        if (lvn < sizeof lv)
            lvn += snprintf(lv + lvn, sizeof lv - lvn, "%s%" PRIu64, LEVEL ? "," : "", NFRONT);
        /* a sample: the last state of this frontier with its shortest history */
        {
            int hist[MAXDEPTH];
            int hl = history(FRONT[NFRONT - 1], hist);
            char hs[800], ds[300];
            history_str(hist, hl, -1, hs, sizeof hs);
            describe_state(FRONT[NFRONT - 1], ds, sizeof ds);
            printf("{\"kind\":\"sample\",\"text\":");
            char t[1200];
            snprintf(t, sizeof t, "map BFS level %d (%" PRIu64 " states): ops [%s] -> %s", LEVEL, NFRONT,
                     hs, ds);
            json_str(stdout, t);
            printf("}\n");
        }
        run_parallel(bfs_worker, bfs_on_crash, 100000);
        expanded_levels++;
        if (SH->stop)
            break;
        /* next frontier: states first reached in this level */
        uint64_t nn = 0;
        for (uint32_t s = 0; s < NSTATES; s++)
            if (BEST[s] != UINT64_MAX && (int)(BEST[s] >> 40) == LEVEL + 2)
                FRONT[nn++] = s;
        qsort(FRONT, nn, sizeof *FRONT, cmp_u32);
        NFRONT = nn;
        visited += nn;
        if (nn == 0) {
            frontier_empty = true;
            break;
        }
    }

    int nquar = 0;
    for (int i = 0; i < NCLASS_MAX; i++)
        if (SH->quarantine[i] >= QK)
            nquar++;
    uint64_t c[C_N] = { 0 };
    for (int w = 0; w < MAXW; w++)
        for (int k = 0; k < C_N; k++)
            c[k] += SH->slot[w].c[k];
    printf("{\"kind\":\"stats\",\"phase\":\"bfs\",\"keys\":%d,\"state_space\":%u,\"ops\":%d,"
           "\"states_visited\":%" PRIu64 ",\"states_expanded\":%" PRIu64 ",\"levels\":%" PRIu64
           ",\"level_sizes\":\"%s\",\"frontier_empty\":%s,\"transitions\":%" PRIu64 ",\"validated\":%" PRIu64
           ",\"observer_comparisons\":%" PRIu64 ",\"disabled\":%" PRIu64 ",\"quarantine_skipped\":%" PRIu64
           ",\"quarantined_classes\":%d,\"crashed_transitions\":%" PRIu64 ",\"unexpandable_states\":%" PRIu64
           ",\"rebuilds\":%" PRIu64 ",\"leak_checks\":%" PRIu64 ",\"leak_check_enabled\":%s,\"seconds\":%.2f}\n",
           NKEYS, NSTATES, NOPS, visited, c[C_STATES], expanded_levels, lv,
           frontier_empty ? "true" : "false", c[C_TRANS], c[C_VALID], c[C_OBS], c[C_DISABLED], c[C_QSKIP],
           nquar, bfs_crashed_transitions, bfs_unexpandable_states, c[C_REBUILDS], c[C_LEAKCHK],
#ifdef HAVE_ASAN
           "true",
#else
           "false",
#endif
           now_s() - t0);
    emit_common("bfs");
    return 0;
}

/* findings, crashes, broke lines shared by all phases */
static void emit_common(const char *phase)
{
    for (int w = 0; w < MAXW; w++) {
        struct slot *sl = &SH->slot[w];
        for (int i = 0; i < sl->nf; i++) {
            struct finding *f = &sl->f[i];
            printf("{\"kind\":\"finding\",\"phase\":\"%s\",\"sig\":", phase);
            json_str(stdout, f->sig);
            printf(",\"text\":");
            json_str(stdout, f->text);
            printf(",\"rkind\":\"%c\",\"replay\":", f->rkind);
            json_str(stdout, f->replay);
            printf(",\"root\":%d,\"count\":%" PRIu64 "}\n", f->root, f->count);
        }
        if (sl->broke[0]) {
            printf("{\"kind\":\"broke\",\"phase\":\"%s\",\"text\":", phase);
            json_str(stdout, sl->broke);
            printf("}\n");
        }
    }
    for (int i = 0; i < NCR; i++) {
        struct crashrec *c = &CR[i];
        printf("{\"kind\":\"crash\",\"phase\":\"%s\",\"key\":", phase);
        json_str(stdout, c->key);
        printf(",\"shape\":");
        json_str(stdout, c->shape);
        printf(",\"op\":");
        json_str(stdout, c->opname);
        printf(",\"rkind\":\"%c\",\"replay\":", c->rkind);
        json_str(stdout, c->replay);
        printf(",\"root\":%d,\"count\":%" PRIu64 ",\"report\":", c->root, c->count);
        json_str(stdout, c->report);
        printf("}\n");
    }
    printf("{\"kind\":\"done\",\"phase\":\"%s\",\"deadline_hit\":%s,\"total_crashes\":%" PRIu64 "}\n", phase,
           deadline_hit ? "true" : "false", total_crashes);
    fflush(stdout);
}

/* ------------------------------------------------------------------------------------------ */
/* attribute path names: an independent three-valued recogniser of the documented syntax        */
/* ------------------------------------------------------------------------------------------ */
/*
 * xcm.h, "Attribute Names": "a string consisting of a sequence of dictionary keys and list indices.
 * Keys are separated by '.', and indices are enclosed in square brackets [<index>]"; the root is a
 * dictionary; xcm_attr.h: EINVAL for "an invalid syntax or is too long".  The documentation fixes
 * neither the key character set nor the spelling of an index, hence three verdicts:
 *
 *  must accept  key ( '.' key | '[' idx ']' )*  in root mode,  ( '.' key | '[' idx ']' )+  in relative
 *               mode, key = [A-Za-z0-9_]+, idx = 0 | [1-9][0-9]{0,17}, at most ATTR_PATH_NAME_MAX
 *               bytes and at most ATTR_PATH_COMP_MAX components.
 *  either       the same shape, but: other characters than . [ ] in a key; an index spelled with
 *               leading zeros, white space or a sign (value >= 0) or with 19+ digits; more than
 *               ATTR_PATH_COMP_MAX components; the empty string.
 *  must reject  everything else: longer than ATTR_PATH_NAME_MAX; an empty key (leading, doubled or
 *               trailing '.'); a key right after ']'; a root path starting with an index; a relative
 *               path starting with a key; stray ']'; missing ']'; an empty, negative or non-numeric index.
 *
 * For everything not rejected the recogniser also yields the component list, hence the canonical
 * spelling, which the implementation's parse result and printed form are compared with.
 */

enum { O_ACCEPT, O_EITHER, O_REJECT };
static const char *const WHY[] = {
    "strict", "empty-path", "key-charset", "index-sign-or-space", "index-leading-zeros", "index-huge",
    "components>64", "too-long", "empty-key", "root-starts-with-index", "stray-bracket",
    "relative-path-starts-with-key", "key-after-index", "unterminated-index", "empty-index",
    "bad-index", "negative-index"
};
enum {
    Y_STRICT, Y_EMPTY_PATH, Y_KEY_CHARSET, Y_IDX_SIGN_SPACE, Y_IDX_ZEROS, Y_IDX_HUGE, Y_COMPS,
    Y_TOO_LONG, Y_EMPTY_KEY, Y_ROOT_INDEX, Y_STRAY, Y_REL_KEY, Y_KEY_AFTER_INDEX, Y_UNTERMINATED,
    Y_EMPTY_INDEX, Y_BAD_INDEX, Y_NEG_INDEX
};

struct ocomp {
    bool is_index;
    bool val_known;
    uint64_t index;
    size_t koff, klen;
};
#define OCOMP_MAX 300
struct ores {
    int verdict;
    int why;
    int ncomps;              /* components recognised (up to the error, for a rejected string) */
    struct ocomp c[OCOMP_MAX];
};

static bool o_special(char c)
{
    return c == '.' || c == '[' || c == ']';
}

static void oracle(const char *s, size_t len, bool root, struct ores *o)
{
    o->verdict = O_ACCEPT;
    o->why = Y_STRICT;
    o->ncomps = 0;
#define SOFT(r) do { if (o->verdict == O_ACCEPT) { o->verdict = O_EITHER; o->why = (r); } } while (0)
#define HARD(r) do { o->verdict = O_REJECT; o->why = (r); return; } while (0)
    if (len > ATTR_PATH_NAME_MAX)
        HARD(Y_TOO_LONG);
    if (len == 0) {
        SOFT(Y_EMPTY_PATH);
        return;
    }
    size_t pos = 0;
    bool want_root_key = root;
    while (pos < len) {
        char ch = s[pos];
        size_t kstart;
        if (ch == '[' && !want_root_key) {
            size_t j = pos + 1;
            while (j < len && s[j] != ']')
                j++;
            if (j == len)
                HARD(Y_UNTERMINATED);
            if (j == pos + 1)
                HARD(Y_EMPTY_INDEX);
            size_t x = pos + 1;
            bool ws = false;
            char sign = 0;
            while (x < j && isspace((unsigned char)s[x])) {
                x++;
                ws = true;
            }
            if (x < j && (s[x] == '+' || s[x] == '-'))
                sign = s[x++];
            size_t d0 = x;
            while (x < j && s[x] >= '0' && s[x] <= '9')
                x++;
            size_t d1 = x;
            while (x < j && isspace((unsigned char)s[x])) {
                x++;
                ws = true;
            }
            if (d1 == d0 || x != j)
                HARD(Y_BAD_INDEX);
            size_t z = d0;
            while (z + 1 < d1 && s[z] == '0')
                z++;
            size_t nsig = d1 - z;
            bool zero = nsig == 1 && s[z] == '0';
            if (sign == '-' && !zero)
                HARD(Y_NEG_INDEX);
            if (ws || sign)
                SOFT(Y_IDX_SIGN_SPACE);
            if (z > d0)
                SOFT(Y_IDX_ZEROS);
            if (nsig > 18)
                SOFT(Y_IDX_HUGE);
            struct ocomp *c = &o->c[o->ncomps++];
            c->is_index = true;
            c->val_known = nsig <= 19;
            c->index = 0;
            if (c->val_known)
                for (size_t q = z; q < d1; q++)
                    c->index = c->index * 10 + (uint64_t)(s[q] - '0');
            pos = j + 1;
            continue;
        }
        if (want_root_key) {
            if (ch == '[')
                HARD(Y_ROOT_INDEX);
            if (ch == ']')
                HARD(Y_STRAY);
            kstart = pos;           /* a leading '.' gives an empty key below */
        } else if (ch == '.')
            kstart = pos + 1;
        else if (ch == ']')
            HARD(Y_STRAY);
        else
            HARD(pos == 0 ? Y_REL_KEY : Y_KEY_AFTER_INDEX);
        size_t e = kstart;
        while (e < len && !o_special(s[e]))
            e++;
        if (e == kstart)
            HARD(Y_EMPTY_KEY);
        for (size_t q = kstart; q < e; q++)
            if (!(isalnum((unsigned char)s[q]) && (unsigned char)s[q] < 0x80) && s[q] != '_')
                SOFT(Y_KEY_CHARSET);
        struct ocomp *c = &o->c[o->ncomps++];
        c->is_index = false;
        c->val_known = true;
        c->koff = kstart;
        c->klen = e - kstart;
        pos = e;
        want_root_key = false;
    }
    if (o->ncomps > ATTR_PATH_COMP_MAX)
        SOFT(Y_COMPS);
#undef SOFT
#undef HARD
}

/* canonical spelling of the recognised components; false if an index value is unknown */
static bool ocanon(const char *s, const struct ores *o, bool root, char *out, size_t cap)
{
    size_t n = 0;
    out[0] = 0;
    for (int i = 0; i < o->ncomps; i++) {
        const struct ocomp *c = &o->c[i];
        if (c->is_index) {
            if (!c->val_known)
                return false;
            n += snprintf(out + n, cap - n, "[%" PRIu64 "]", c->index);
        } else
            n += snprintf(out + n, cap - n, "%s%.*s", (i == 0 && root) ? "" : ".", (int)c->klen,
                          s + c->koff);
        if (n >= cap)
            return false;
    }
    return true;
}

/* do two recognised component lists denote the same path?  -1: unknown */
static int ocomps_equal(const char *sa, const struct ores *a, const char *sb, const struct ores *b)
{
    if (a->ncomps != b->ncomps)
        return 0;
    for (int i = 0; i < a->ncomps; i++) {
        const struct ocomp *x = &a->c[i], *y = &b->c[i];
        if (x->is_index != y->is_index)
            return 0;
        if (x->is_index) {
            if (!x->val_known || !y->val_known)
                return -1;
            if (x->index != y->index)
                return 0;
        } else if (x->klen != y->klen || memcmp(sa + x->koff, sb + y->koff, x->klen) != 0)
            return 0;
    }
    return 1;
}

/* ---- evaluating one (string, mode) ------------------------------------------------------------ */

enum { ST_IDLE, ST_PARSE, ST_INSPECT, ST_LEN, ST_TO_STR, ST_REPARSE, ST_EQUAL, ST_EQUAL_STR, ST_DESTROY, ST_N };
static const char *const STAGE_NAME[ST_N] = {
    "idle", "attr_path_parse", "attr_path_get_comp", "attr_path_len", "attr_path_to_str",
    "attr_path_parse(printed)", "attr_path_equal", "attr_path_equal_str", "attr_path_destroy"
};

/* the previously accepted path of this worker: partner for equal/unequal comparisons */
static struct attr_path *prev_path;
static char *prev_str;
static struct ores *prev_o;
static size_t prev_heap;       /* heap bytes held by prev_path, as measured when it was parsed */
static char last_rejected[2][300] = { "[", "[" };   /* per parse mode */
static bool prev_root;

struct pout {            /* outcome, for --one-path */
    bool accepted;
    char printed[600];
};

static int eval_findings;      /* findings of the evaluation in progress: only the first one is reported */

static void pfinding(const char *s, bool root, const char *clause, const char *shape, const char *fmt, ...)
{
    char sig[160], detail[500];
    if (eval_findings++ > 0)
        return;
    va_list ap;
    va_start(ap, fmt);
    vsnprintf(detail, sizeof detail, fmt, ap);
    va_end(ap);
    snprintf(sig, sizeof sig, "C19/path/%s/%s", clause, shape);
    add_finding(sig, 'p', s, root, "path \"%s\" (%s mode): %s", s, root ? "root" : "relative", detail);
}

#define STAGE(x) (SL->stage = (x), SL->c[C_PCALLS]++)

/* the shape of a path input as it appears in crash signatures (and quarantine classes) */
enum { SHP_NORMAL, SHP_COMPS, SHP_LONG, SHP_N };
static const char *const SHAPE_NAME[SHP_N] = { "components<=64", "components>64", "len>255" };

static int path_shape(size_t len, const struct ores *o)
{
    return len > ATTR_PATH_NAME_MAX ? SHP_LONG : o->ncomps > ATTR_PATH_COMP_MAX ? SHP_COMPS : SHP_NORMAL;
}

/* An over-limit shape whose inputs killed QK workers in one library call is skipped from then on (and
   counted): on a tree with the component-count defect every one of the ~10^4 inputs with more than 64
   components dies, and a process death costs ~10 ms.  Inputs within the limits are never skipped. */
static bool path_quarantined(int shape)
{
    if (SH == NULL || shape == SHP_NORMAL)
        return false;
    for (int st = 0; st < ST_N; st++)
        if (SH->quarantine[shape * ST_N + st] >= QK)
            return true;
    return false;
}

static void eval_path(const char *str, size_t len, bool root, struct ores *o, struct pout *out)
{
    /* the input lives in a block that ends exactly at its NUL */
    char *buf = exact_dup(str, len + 1);
    oracle(buf, len, root, o);
    eval_findings = 0;
    if (out)
        out->accepted = false;
    if (path_quarantined(path_shape(len, o))) {
        SL->c[C_QSKIP]++;
        free(buf);
        return;
    }
    SL->c[C_PEVAL]++;

    size_t b0 = heap_bytes();
    STAGE(ST_PARSE);
    struct attr_path *p = attr_path_parse(buf, root);
    size_t b1 = heap_bytes();

    if (p == NULL) {
        SL->c[C_PREJ]++;
        if (o->verdict == O_ACCEPT)
            pfinding(buf, root, "rejects-valid", "strict-syntax",
                     "rejected although it is within the documented syntax and the limits (%d components, %zu bytes)",
                     o->ncomps, len);
        else if (o->verdict == O_EITHER)
            SL->c[C_PEITHER_REJ]++;
        else
            SL->c[C_PMUST_REJ]++;
        if (b1 != b0)
            pfinding(buf, root, "leak", "rejected-parse", "%zd bytes still allocated after a rejected parse",
                     (ssize_t)(b1 - b0));
        if (len < sizeof last_rejected[0])
            memcpy(last_rejected[root], buf, len + 1);
        SL->stage = ST_IDLE;
        free(buf);
        return;
    }

    SL->c[C_PACC]++;
    if (out)
        out->accepted = true;
    if (o->verdict == O_REJECT)
        pfinding(buf, root, "accepts-out-of-syntax", WHY[o->why], "accepted although outside the documented syntax (%s)",
                 WHY[o->why]);
    else if (o->verdict == O_EITHER) {
        SL->c[C_PEITHER_ACC]++;
        SL->either_why[o->why < 16 ? o->why : 15]++;
    } else
        SL->c[C_PMUST_ACC]++;
    bool structure_known = o->verdict != O_REJECT;

    /* the parse result is the recognised component list */
    STAGE(ST_INSPECT);
    size_t nc = attr_path_num_comps(p);
    if (structure_known) {
        if (nc != (size_t)o->ncomps) {
            char got[40];
            if (nc > 2 * ATTR_PATH_NAME_MAX)
                snprintf(got, sizeof got, "an impossible number (> %d) of", 2 * ATTR_PATH_NAME_MAX);
            else
                snprintf(got, sizeof got, "%zu", nc);
            pfinding(buf, root, "structure", o->ncomps > ATTR_PATH_COMP_MAX ? "component-count/components>64" :
                     "component-count", "parsed into %s components, syntax says %d", got, o->ncomps);
        }
        else
            for (size_t i = 0; i < nc; i++) {
                const struct attr_pcomp *pc = attr_path_get_comp(p, i);
                const struct ocomp *oc = &o->c[i];
                bool isidx = attr_pcomp_is_index(pc);
                if (isidx != oc->is_index || attr_pcomp_is_key(pc) == isidx ||
                    (attr_pcomp_get_type(pc) == attr_pcomp_type_index) != isidx)
                    pfinding(buf, root, "structure", "component-type", "component %zu has the wrong type", i);
                else if (isidx) {
                    if (oc->val_known && attr_pcomp_get_index(pc) != oc->index)
                        pfinding(buf, root, "structure", "index-value", "component %zu is index %zu, syntax says %" PRIu64,
                                 i, attr_pcomp_get_index(pc), oc->index);
                } else {
                    const char *k = attr_pcomp_get_key(pc);
                    if (strlen(k) != oc->klen || memcmp(k, buf + oc->koff, oc->klen) != 0)
                        pfinding(buf, root, "structure", "key-value", "component %zu is key \"%s\"", i, k);
                    STAGE(ST_INSPECT);
                    if (!attr_path_is_valid_key(k))
                        pfinding(buf, root, "structure", "is_valid_key", "attr_path_is_valid_key rejects parsed key \"%s\"", k);
                }
            }
        if (nc > 1)
            SL->c[C_PNONTRIV]++;
    }

    /* print: length as announced, canonical spelling */
    STAGE(ST_LEN);
    size_t plen = attr_path_len(p, root);
    STAGE(ST_TO_STR);
    char *s1 = attr_path_to_str(p, root);
    if (out)
        snprintf(out->printed, sizeof out->printed, "%s", s1);
    if (strlen(s1) != plen)
        pfinding(buf, root, "print", "len-mismatch", "attr_path_len says %zu, printed form \"%s\" has %zu", plen, s1,
                 strlen(s1));
    char canon[1200];
    if (structure_known && ocanon(buf, o, root, canon, sizeof canon) && strcmp(canon, s1) != 0)
        pfinding(buf, root, "print", "not-canonical", "printed as \"%s\", canonical spelling is \"%s\"", s1, canon);

    /* parse(print(parse(x))) = parse(x) */
    size_t l1 = strlen(s1);
    char *s1x = exact_dup(s1, l1 + 1);
    STAGE(ST_REPARSE);
    struct attr_path *p2 = attr_path_parse(s1x, root);
    if (p2 == NULL)
        pfinding(buf, root, "roundtrip-mismatch", "printed-form-rejected", "printed form \"%s\" does not parse", s1);
    else {
        STAGE(ST_EQUAL);
        if (!attr_path_equal(p, p2) || !attr_path_equal(p2, p) || !attr_path_equal(p, p))
            pfinding(buf, root, "roundtrip-mismatch", "reparse-not-equal", "parsing printed form \"%s\" gives a different path", s1);
        STAGE(ST_TO_STR);
        char *s2 = attr_path_to_str(p2, root);
        if (strcmp(s1, s2) != 0)
            pfinding(buf, root, "roundtrip-mismatch", "print-not-idempotent", "\"%s\" re-prints as \"%s\"", s1, s2);
        free(s2);
        STAGE(ST_DESTROY);
        attr_path_destroy(p2);
    }
    /* the other mode's spelling of the same path */
    if (nc > 0 && (!root || l1 < ATTR_PATH_NAME_MAX)) {
        bool other = !root;
        bool printable = other ? attr_pcomp_is_key(attr_path_get_comp(p, 0)) : true;
        if (printable) {
            STAGE(ST_TO_STR);
            char *so = attr_path_to_str(p, other);
            STAGE(ST_EQUAL_STR);
            if (!attr_path_equal_str(p, so, other))
                pfinding(buf, root, "roundtrip-mismatch", "other-mode", "the %s mode spelling \"%s\" is not equal to the path",
                         other ? "root" : "relative", so);
            free(so);
        }
    }

    STAGE(ST_EQUAL_STR);
    if (!attr_path_equal_str(p, buf, root))
        pfinding(buf, root, "equal_str", "own-input", "attr_path_equal_str(parse(x), x) is false");
    STAGE(ST_EQUAL_STR);
    if (!attr_path_equal_str(p, s1x, root))
        pfinding(buf, root, "equal_str", "printed-form", "attr_path_equal_str(parse(x), print(parse(x))) is false");
    STAGE(ST_EQUAL_STR);
    if (attr_path_equal_str(p, last_rejected[root], root))
        pfinding(buf, root, "equal_str", "unparsable-string", "attr_path_equal_str is true for the unparsable \"%s\"",
                 last_rejected[root]);

    /* two near misses built from the recognised component list must NOT be equal to the path: the path
       without its last component, and the path with the last component altered (key + "x", index + 1) */
    if (structure_known && o->ncomps >= 1 && o->ncomps <= ATTR_PATH_COMP_MAX && strlen(canon) == l1 &&
        l1 + 2 <= ATTR_PATH_NAME_MAX) {
        char near[2][600];
        bool is_prefix[2] = { false, false };
        int nnear = 0;
        const struct ocomp *lc = &o->c[o->ncomps - 1];
        struct ores *po = xmalloc(sizeof *po);
        *po = *o;
        po->ncomps--;
        if (ocanon(buf, po, root, near[nnear], sizeof near[0]))
            is_prefix[nnear++] = true;
        free(po);
        size_t cl = strlen(canon);
        if (!lc->is_index) {
            snprintf(near[nnear++], sizeof near[0], "%sx", canon);
        } else if (lc->val_known && lc->index < 100000000000000000ULL) {
            size_t cut = cl;
            while (cut > 0 && canon[cut - 1] != '[')
                cut--;
            if (cut > 0)
                snprintf(near[nnear++], sizeof near[0], "%.*s%" PRIu64 "]", (int)cut, canon, lc->index + 1);
        }
        for (int i = 0; i < nnear; i++) {
            char *nx = exact_dup(near[i], strlen(near[i]) + 1);
            STAGE(ST_REPARSE);
            struct attr_path *q = attr_path_parse(nx, root);
            if (q != NULL) {
                STAGE(ST_EQUAL);
                bool e1 = attr_path_equal(p, q), e2 = attr_path_equal(q, p);
                STAGE(ST_EQUAL_STR);
                bool e3 = attr_path_equal_str(p, nx, root);
                if (e1 || e2 || e3)
                    pfinding(buf, root, "equal", is_prefix[i] ? "equal-to-own-prefix" : "equal-to-altered-last-component",
                             "reported equal to the different path \"%s\" (equal=%d/%d equal_str=%d)", nx, e1, e2, e3);
                STAGE(ST_DESTROY);
                attr_path_destroy(q);
            }
            free(nx);
        }
    }

    /* (in)equality with the previously accepted path, as decided by the component lists */
    if (prev_path != NULL && structure_known) {
        int want = ocomps_equal(buf, o, prev_str, prev_o);
        if (want >= 0) {
            STAGE(ST_EQUAL);
            bool e1 = attr_path_equal(p, prev_path), e2 = attr_path_equal(prev_path, p);
            STAGE(ST_EQUAL_STR);
            bool e3 = attr_path_equal_str(prev_path, buf, root);
            if ((e1 != (want == 1) || e2 != (want == 1) || e3 != (want == 1)) && eval_findings++ == 0) {
                /* replay needs the partner: "<partner>\n<partner mode>\n<string>" */
                char both[700], sig[160];
                snprintf(both, sizeof both, "%s\n%d\n%s", prev_str, prev_root ? 1 : 0, buf);
                snprintf(sig, sizeof sig, "C19/path/equal/%s", want ? "equal-paths-differ" : "different-paths-equal");
                add_finding(sig, 'q', both, root, "path \"%s\" (%s mode) compared with \"%s\": equal=%d/%d "
                            "equal_str=%d, the component lists say %d", buf, root ? "root" : "relative", prev_str,
                            e1, e2, e3, want);
            }
        }
    }
    free(s1x);
    free(s1);

    size_t b2 = heap_bytes();
    if (b2 != b1)
        pfinding(buf, root, "leak", "print-or-compare", "%zd bytes still allocated after print/compare calls",
                 (ssize_t)(b2 - b1));

    /* this path becomes the comparison partner; the old one must give back exactly what it took */
    STAGE(ST_DESTROY);
    if (structure_known) {
        if (prev_path != NULL) {
            size_t before = heap_bytes();
            attr_path_destroy(prev_path);
            size_t freed = before - heap_bytes();
            if (freed != prev_heap)
                pfinding(prev_str, prev_root, "leak", "parse-destroy", "parse took %zu bytes, destroy gave back %zu",
                         prev_heap, freed);
            free(prev_str);
        }
        if (prev_o == NULL)
            prev_o = xmalloc(sizeof *prev_o);
        *prev_o = *o;
        prev_path = p;
        prev_str = buf;
        prev_root = root;
        prev_heap = b1 - b0;
    } else {
        attr_path_destroy(p);
        free(buf);
    }
    SL->stage = ST_IDLE;
}

/* give up the comparison partner (end of a worker's range / of a replay), with the same accounting */
static void flush_prev(void)
{
    if (prev_path == NULL)
        return;
    eval_findings = 0;
    SL->stage = ST_DESTROY;
    size_t before = heap_bytes();
    attr_path_destroy(prev_path);
    size_t freed = before - heap_bytes();
    if (freed != prev_heap)
        pfinding(prev_str, prev_root, "leak", "parse-destroy", "parse took %zu bytes, destroy gave back %zu",
                 prev_heap, freed);
    free(prev_str);
    prev_path = NULL;
    prev_str = NULL;
    SL->stage = ST_IDLE;
}

/* ---- the input space ---------------------------------------------------------------------------- */

static const char SIGMA[] = "aB019.[]-+ ";
#define NSIG 11
static int MAXLEN = 5;
static uint64_t COUNT_A;           /* all strings of length <= MAXLEN */
#define FAM_TOTAL 260              /* k * |unit| <= FAM_TOTAL */
static const char *const WRAP[][2] = { { "", "" }, { "a", "" }, { "a[", "]" } };
#define NWRAP 3
struct fam {
    uint8_t wrap;
    uint16_t unit;                 /* index among the strings of length 1..3 */
    uint16_t k;
};
static struct fam *FAM;
static uint64_t NFAM, NITEMS;
static uint64_t fam_distinct_beyond_A;   /* distinct family strings not already among the short ones */

static size_t short_string(uint64_t idx, int maxlen, char *out)
{
    /* idx counts strings by length, then lexicographically in SIGMA order */
    uint64_t n = 1;
    int l = 0;
    while (idx >= n) {
        idx -= n;
        n *= NSIG;
        l++;
        if (l > maxlen)
            die("short_string index out of range");
    }
    for (int i = l - 1; i >= 0; i--) {
        out[i] = SIGMA[idx % NSIG];
        idx /= NSIG;
    }
    out[l] = 0;
    return (size_t)l;
}

static size_t gen_input(uint64_t idx, char *out)
{
    if (idx < COUNT_A)
        return short_string(idx, MAXLEN, out);
    const struct fam *f = &FAM[idx - COUNT_A];
    char unit[8];
    size_t ul = short_string((uint64_t)f->unit + 1, 3, unit);   /* +1: skip the empty string */
    size_t n = 0;
    n += (size_t)sprintf(out + n, "%s", WRAP[f->wrap][0]);
    for (int i = 0; i < f->k; i++) {
        memcpy(out + n, unit, ul);
        n += ul;
    }
    n += (size_t)sprintf(out + n, "%s", WRAP[f->wrap][1]);
    out[n] = 0;
    return n;
}

static int cmp_u128(const void *a, const void *b)
{
    return memcmp(a, b, 16);
}

static void build_inputs(void)
{
    COUNT_A = 0;
    uint64_t n = 1;
    for (int l = 0; l <= MAXLEN; l++, n *= NSIG)
        COUNT_A += n;
    uint64_t nunits = NSIG + NSIG * NSIG + NSIG * NSIG * NSIG;
    FAM = xmalloc(sizeof *FAM * NWRAP * nunits * FAM_TOTAL);
    NFAM = 0;
    for (int w = 0; w < NWRAP; w++)
        for (uint64_t u = 0; u < nunits; u++) {
            size_t ul = u < NSIG ? 1 : u < NSIG + NSIG * NSIG ? 2 : 3;
            for (int k = 1; (size_t)k * ul <= FAM_TOTAL; k++)
                FAM[NFAM++] = (struct fam) { .wrap = (uint8_t)w, .unit = (uint16_t)u, .k = (uint16_t)k };
        }
    NITEMS = COUNT_A + NFAM;

    /* measured number of distinct strings: fingerprints (2 x 64 bit FNV-1a variants) of the family
       members longer than MAXLEN (the shorter ones are among the exhaustive short strings).  Used for
       the coverage report only -- every generated string is evaluated, duplicates included. */
    uint64_t (*fp)[2] = xmalloc(NFAM * 16 + 16);
    uint64_t m = 0;
    char buf[400];
    for (uint64_t i = 0; i < NFAM; i++) {
        size_t l = gen_input(COUNT_A + i, buf);
        if (l <= (size_t)MAXLEN)
            continue;
        uint64_t h1 = 0xcbf29ce484222325ULL, h2 = 0x84222325cbf29ce4ULL;
        for (size_t j = 0; j < l; j++) {
            h1 = (h1 ^ (unsigned char)buf[j]) * 0x100000001b3ULL;
            h2 = (h2 + (unsigned char)buf[j] + 1) * 0x9e3779b97f4a7c15ULL;
            h2 ^= h2 >> 29;
        }
        fp[m][0] = h1;
        fp[m][1] = h2;
        m++;
    }
    qsort(fp, m, 16, cmp_u128);
    fam_distinct_beyond_A = 0;
    for (uint64_t i = 0; i < m; i++)
        if (i == 0 || memcmp(fp[i], fp[i - 1], 16) != 0)
            fam_distinct_beyond_A++;
    free(fp);
}

static void path_worker(int w, uint64_t start_idx, int start_mode)
{
    struct ores *o = xmalloc(sizeof *o);
    char buf[400];
    int m0 = start_mode;
    uint64_t cnt = 0;
    for (uint64_t idx = start_idx; idx < NITEMS && !SH->stop; idx += (uint64_t)W, m0 = 0) {
        if ((cnt++ & 255) == 0)
            watchdog(60);
        size_t len = gen_input(idx, buf);
        SL->pos_major = idx;
        for (int mode = m0; mode < 2; mode++) {
            SL->pos_minor = mode;
            eval_path(buf, len, mode == 0, o, NULL);
        }
    }
    flush_prev();
    free(o);
}

static void path_on_crash(int w, int status, uint64_t *rm, int *rn)
{
    struct slot *sl = &SH->slot[w];
    uint64_t idx = sl->pos_major;
    int mode = sl->pos_minor;
    int stage = sl->stage;
    char buf[400], shape[64];
    size_t len = gen_input(idx, buf);
    struct ores *o = xmalloc(sizeof *o);
    oracle(buf, len, mode == 0, o);
    int shp = path_shape(len, o);
    snprintf(shape, sizeof shape, "%s", SHAPE_NAME[shp]);
    free(o);
    if (stage >= 0 && stage < ST_N)
        SH->quarantine[shp * ST_N + stage]++;
    CRASH_ORD = idx * 2 + (uint64_t)mode;
    record_crash(w, status, shape, STAGE_NAME[stage >= 0 && stage < ST_N ? stage : 0], 'p', buf, mode == 0);
    if (mode == 0) {
        *rm = idx;
        *rn = 1;
    } else {
        *rm = idx + (uint64_t)W;
        *rn = 0;
    }
}

static int run_paths(void)
{
    double t0 = now_s();
    build_inputs();
    run_parallel(path_worker, path_on_crash, 200000);

    uint64_t c[C_N] = { 0 }, ew[16] = { 0 };
    for (int w = 0; w < MAXW; w++) {
        for (int k = 0; k < C_N; k++)
            c[k] += SH->slot[w].c[k];
        for (int k = 0; k < 16; k++)
            ew[k] += SH->slot[w].either_why[k];
    }
    printf("{\"kind\":\"stats\",\"phase\":\"paths\",\"maxlen\":%d,\"short_strings\":%" PRIu64 ",\"family_strings\":%" PRIu64
           ",\"family_distinct_beyond_short\":%" PRIu64 ",\"distinct_inputs\":%" PRIu64 ",\"evaluations\":%" PRIu64
           ",\"expected_evaluations\":%" PRIu64 ",\"library_calls\":%" PRIu64 ",\"accepted\":%" PRIu64 ",\"rejected\":%" PRIu64
           ",\"must_accept_accepted\":%" PRIu64 ",\"must_reject_rejected\":%" PRIu64 ",\"either_accepted\":%" PRIu64
           ",\"either_rejected\":%" PRIu64 ",\"accepted_multi_component\":%" PRIu64 ",\"complete\":%s,\"seconds\":%.2f",
           MAXLEN, COUNT_A, NFAM, fam_distinct_beyond_A, COUNT_A + fam_distinct_beyond_A, c[C_PEVAL], 2 * NITEMS,
           c[C_PCALLS], c[C_PACC], c[C_PREJ], c[C_PMUST_ACC], c[C_PMUST_REJ], c[C_PEITHER_ACC], c[C_PEITHER_REJ],
           c[C_PNONTRIV], (!SH->stop && c[C_PEVAL] + c[C_QSKIP] == 2 * NITEMS) ? "true" : "false",
           now_s() - t0);
    printf(",\"quarantine_skipped\":%" PRIu64, c[C_QSKIP]);
    printf(",\"either_accepted_by_reason\":{");
    for (int k = 0, first = 1; k < 16; k++)
        if (ew[k]) {
            printf("%s\"%s\":%" PRIu64, first ? "" : ",", WHY[k], ew[k]);
            first = 0;
        }
    printf("}}\n");
    emit_common("paths");
    return 0;
}

/* ------------------------------------------------------------------------------------------ */
/* large key sets: scripted sequences with the same observers                                   */
/* ------------------------------------------------------------------------------------------ */

static const char *const LSTEP[] = {
    "idle", "fill-ascending", "fill-permuted", "replace-every-third", "add_all", "delete-odd",
    "clone-and-empty-the-clone", "alias-from-neighbour", "one-megabyte-value", "destroy"
};

static void lname(int style, int i, char *out, size_t cap)
{
    if (style == 0)
        snprintf(out, cap, "k%d", i);
    else if (style == 1) {       /* long names that differ only at the very end */
        memset(out, 'p', 200);
        snprintf(out + 200, cap - 200, ".q[%d]", i);
    } else {                     /* every name a proper prefix of the next */
        memset(out, 'a', (size_t)i + 1);
        out[i + 1] = 0;
    }
}

static void ladd(struct xcm_attr_map *m, struct model *md, const char *name, int vid, bool typed)
{
    const struct val *v = &V[vid];
    char *nm = exact_dup(name, strlen(name) + 1);
    void *vb = exact_dup(v->bytes, v->len);
    if (typed)
        typed_add(m, nm, v->type, vb, v->len);
    else
        xcm_attr_map_add(m, nm, v->type, vb, v->len);
    scribble_free(vb, v->len, 0xa5);
    scribble_free(nm, strlen(name) + 1, 0x5a);
    m_add(md, name, v->type, v->bytes, v->len);
    SL->c[C_LOPS]++;
}

static void lobserve(struct xcm_attr_map *a, struct model *ma, struct xcm_attr_map *b, struct model *mb,
                     struct octx *cx)
{
    uint64_t o0 = SL->c[C_OBS];
    observe_map(a, ma, NULL, 0, "M1", cx);
    if (b != NULL) {
        observe_map(b, mb, NULL, 0, "M2", cx);
        observe_equal(a, ma, b, mb, cx);
    }
    SL->c[C_LOBS] += SL->c[C_OBS] - o0;
}

static int LARGE_N[16], LARGE_STYLE[16], NLARGE;

static void large_script(int n, int style)
{
    char name[1200], other[1200], rp[80];
    snprintf(rp, sizeof rp, "large:n=%d:style=%d", n, style);
    struct octx cx = { .replay = rp, .after = "large-script" };
    size_t base = heap_bytes();
    struct xcm_attr_map *m1 = xcm_attr_map_create(), *m2 = xcm_attr_map_create();
    struct model a, b;
    m_init(&a, true);
    m_init(&b, true);

    SL->pos_minor = 1;
    cx.after = LSTEP[1];
    for (int i = 0; i < n; i++) {
        lname(style, i, name, sizeof name);
        ladd(m1, &a, name, i % NV, i & 1);
    }
    lobserve(m1, &a, m2, &b, &cx);

    SL->pos_minor = 2;               /* same contents, different insertion order: must be equal */
    cx.after = LSTEP[2];
    int step = n / 2 + 1;
    while (n > 0 && step < n) {
        int x = step, y = n;
        while (y) { int t = x % y; x = y; y = t; }
        if (x == 1)
            break;
        step++;
    }
    for (int j = 0; j < n; j++) {
        int i = (int)(((long)j * step + 7) % n);
        lname(style, i, name, sizeof name);
        ladd(m2, &b, name, i % NV, !(i & 1));
    }
    lobserve(m1, &a, m2, &b, &cx);

    SL->pos_minor = 3;
    cx.after = LSTEP[3];
    for (int i = 0; i < n; i += 3) {
        lname(style, i, name, sizeof name);
        ladd(m1, &a, name, (i + 1) % NV, false);
    }
    lobserve(m1, &a, m2, &b, &cx);

    SL->pos_minor = 4;
    cx.after = LSTEP[4];
    xcm_attr_map_add_all(m2, m1);
    m_add_all(&b, &a);
    xcm_attr_map_add_all(m1, m1);
    SL->c[C_LOPS] += 2;
    lobserve(m1, &a, m2, &b, &cx);

    SL->pos_minor = 5;
    cx.after = LSTEP[5];
    for (int i = 1; i < n; i += 2) {
        lname(style, i, name, sizeof name);
        xcm_attr_map_del(m1, name);
        m_del(&a, name);
        SL->c[C_LOPS]++;
    }
    lobserve(m1, &a, m2, &b, &cx);

    SL->pos_minor = 6;               /* emptying a clone must not touch the original */
    cx.after = LSTEP[6];
    {
        struct xcm_attr_map *m3 = xcm_attr_map_clone(m1);
        struct model c;
        m_init(&c, false);
        m_clone(&c, &a);
        lobserve(m1, &a, m3, &c, &cx);
        for (int i = n - 1; i >= 0; i--) {
            lname(style, i, name, sizeof name);
            xcm_attr_map_del(m3, name);
            m_del(&c, name);
            SL->c[C_LOPS]++;
        }
        lobserve(m3, &c, m1, &a, &cx);
        xcm_attr_map_destroy(m3);
        m_clear(&c);
    }

    SL->pos_minor = 7;               /* value pointers into the other map / another entry of the same map */
    cx.after = LSTEP[7];
    for (int i = 0; i < n; i++) {
        lname(style, i, name, sizeof name);
        lname(style, (i + 1) % n, other, sizeof other);
        const struct xcm_attr_map *src = (i & 1) ? m2 : m1;
        struct model *msrc = (i & 1) ? &b : &a;
        if (strcmp(name, other) == 0)
            continue;            /* n == 1: would alias the entry being replaced (covered by the BFS) */
        enum xcm_attr_type t;
        size_t l;
        const void *p = xcm_attr_map_get(src, other, &t, &l);
        const struct ment *e = m_find(msrc, other);
        OBS(&cx, (p != NULL) == (e != NULL), "get-presence", "large script: presence of \"%s\"", other);
        if (p == NULL || e == NULL)
            continue;
        m_add(&a, name, e->type, e->bytes, e->len);
        xcm_attr_map_add(m1, name, t, p, l);
        SL->c[C_LOPS]++;
    }
    lobserve(m1, &a, m2, &b, &cx);

    SL->pos_minor = 8;
    cx.after = LSTEP[8];
    {
        size_t big = 1 << 20;
        unsigned char *v = malloc(big);
        for (size_t j = 0; j < big; j++)
            v[j] = (unsigned char)(j * 2654435761u >> 13);
        m_add(&a, "big.value", xcm_attr_type_bin, v, big);
        xcm_attr_map_add_bin(m1, "big.value", v, big);
        scribble_free(v, big, 0xa5);
        struct xcm_attr_map *m3 = xcm_attr_map_clone(m1);
        struct model c;
        m_init(&c, false);
        m_clone(&c, &a);
        SL->c[C_LOPS] += 2;
        lobserve(m1, &a, m3, &c, &cx);
        xcm_attr_map_destroy(m3);
        m_clear(&c);
    }

    SL->pos_minor = 9;
    cx.after = LSTEP[9];
    xcm_attr_map_destroy(m1);
    xcm_attr_map_destroy(m2);
    m_clear(&a);
    m_clear(&b);
    size_t after = heap_bytes();
    OBS(&cx, after == base, "leak", "large script n=%d style=%d: %zd bytes still allocated after destroy", n,
        style, (ssize_t)(after - base));
    SL->c[C_LDONE]++;
    SL->pos_minor = 0;
}

static void large_worker(int w, uint64_t start, int minor)
{
    (void)minor;
    for (uint64_t i = start; i < (uint64_t)NLARGE && !SH->stop; i += (uint64_t)W) {
        watchdog(600);
        SL->pos_major = i;
        large_script(LARGE_N[i], LARGE_STYLE[i]);
    }
}

static void large_on_crash(int w, int status, uint64_t *rm, int *rn)
{
    struct slot *sl = &SH->slot[w];
    uint64_t i = sl->pos_major;
    char rp[80];
    snprintf(rp, sizeof rp, "large:n=%d:style=%d", LARGE_N[i], LARGE_STYLE[i]);
    int st = sl->pos_minor;
    CRASH_ORD = i;
    record_crash(w, status, LSTEP[st >= 0 && st < 10 ? st : 0], "large-script", 'o', rp, -1);
    *rm = i + (uint64_t)W;
    *rn = 0;
}

static int run_large(bool thorough)
{
    double t0 = now_s();
    /* style 0: short names k<i>; style 1: 200+ byte names that differ at the very end; style 2: every
       name a proper prefix of the next */
    static const int nq[] = { 0, 1, 2, 3, 17, 256, 1000 }, nt[] = { 0, 1, 2, 3, 17, 256, 3000 };
    static const int extra_n[2][2] = { { 150, 120 }, { 400, 300 } };
    int max_keys = 0;
    NLARGE = 0;
    for (int i = 0; i < 7; i++) {
        LARGE_N[NLARGE] = thorough ? nt[i] : nq[i];
        LARGE_STYLE[NLARGE++] = 0;
    }
    for (int st = 1; st <= 2; st++) {
        LARGE_N[NLARGE] = extra_n[thorough ? 1 : 0][st - 1];
        LARGE_STYLE[NLARGE++] = st;
    }
    /* biggest first, so that the longest script does not start last */
    for (int i = 0; i < NLARGE; i++)
        for (int j = i + 1; j < NLARGE; j++)
            if (LARGE_N[j] > LARGE_N[i]) {
                int t = LARGE_N[i]; LARGE_N[i] = LARGE_N[j]; LARGE_N[j] = t;
                t = LARGE_STYLE[i]; LARGE_STYLE[i] = LARGE_STYLE[j]; LARGE_STYLE[j] = t;
            }
    for (int i = 0; i < NLARGE; i++)
        if (LARGE_N[i] > max_keys)
            max_keys = LARGE_N[i];
    run_parallel(large_worker, large_on_crash, 100);
    uint64_t c[C_N] = { 0 };
    for (int w = 0; w < MAXW; w++)
        for (int j = 0; j < C_N; j++)
            c[j] += SH->slot[w].c[j];
    printf("{\"kind\":\"stats\",\"phase\":\"large\",\"scripts\":%d,\"scripts_completed\":%" PRIu64 ",\"max_keys\":%d,\"operations\":%" PRIu64
           ",\"observer_comparisons\":%" PRIu64 ",\"seconds\":%.2f}\n", NLARGE, c[C_LDONE], max_keys, c[C_LOPS],
           c[C_LOBS], now_s() - t0);
    emit_common("large");
    return 0;
}

/* ------------------------------------------------------------------------------------------ */
/* single-case replay (in-process: a sanitizer report goes to stderr, symbolized)               */
/* ------------------------------------------------------------------------------------------ */

static int print_solo_findings(void)
{
    for (int i = 0; i < SL->nf; i++)
        printf("FINDING %s\n  %s\n", SL->f[i].sig, SL->f[i].text);
    if (SL->broke[0])
        printf("BROKE %s\n", SL->broke);
    printf("%s\n", SL->nf ? "RESULT: violates the oracle" : "RESULT: conforms to the oracle");
    fflush(stdout);
    return SL->broke[0] ? 2 : SL->nf ? 1 : 0;
}

static int replay_ops(const char *spec)
{
    SL = &solo_slot;
    int n = 0, st = 0;
    if (sscanf(spec, "large:n=%d:style=%d", &n, &st) == 2) {
        printf("large script n=%d style=%d\n", n, st);
        fflush(stdout);
        large_script(n, st);
        return print_solo_findings();
    }
    NM = 1;
    for (int k = 0; k < NKEYS; k++)
        NM *= 11;
    NSTATES = NM * (NM + 1);
    build_ops();

    char *copy = strdup(spec), *save = NULL;
    struct xcm_attr_map *M[2];
    struct model md[2];
    char hs[1400] = "";
    size_t hn = 0;
    size_t base = heap_bytes();
    fresh_maps(M);
    m_init(&md[0], true);
    m_init(&md[1], false);
    for (char *tok = strtok_r(copy, ",", &save); tok != NULL; tok = strtok_r(NULL, ",", &save)) {
        int opi = op_by_name(tok);
        if (opi < 0) {
            fprintf(stderr, "h_map: unknown operation '%s' (with --keys %d)\n", tok, NKEYS);
            return 2;
        }
        if (!op_enabled(md, &OPS[opi])) {
            fprintf(stderr, "h_map: operation '%s' is not applicable here\n", tok);
            return 2;
        }
        hn += (size_t)snprintf(hs + hn, sizeof hs - hn, "%s%s", hn ? "," : "", tok);
        if (hn >= sizeof hs)
            hn = sizeof hs - 1;
        struct octx cx = { .replay = hs, .after = op_shape(&OPS[opi]) };
        printf("op %-24s (%s)\n", tok, op_shape(&OPS[opi]));
        fflush(stdout);
        if (!apply_op(&OPS[opi], M, md, true))
            mismatch(&cx, "get-presence", "the value to alias could not be looked up");
        observe_all(M, md, &cx);
        uint32_t succ = state_code(model_map_code(&md[0]), model_map_code(&md[1]));
        uint32_t isucc = state_code(impl_map_code(M[0]), impl_map_code(M[1]));
        OBS(&cx, succ == isucc, "canonical-form", "canonical form of the maps (%u) differs from the model's (%u)",
            isucc, succ);
        char ds[300];
        describe_state(succ, ds, sizeof ds);
        printf("   model: %s   observer mismatches so far: %d\n", ds, SL->nf);
        fflush(stdout);
    }
    xcm_attr_map_destroy(M[0]);
    xcm_attr_map_destroy(M[1]);
    m_clear(&md[0]);
    m_clear(&md[1]);
    free(copy);
    size_t after = heap_bytes();
    if (after != base) {
        struct octx cx = { .replay = hs, .after = "destroy" };
        mismatch(&cx, "leak", "%zd bytes still allocated after both maps were destroyed", (ssize_t)(after - base));
    }
    return print_solo_findings();
}

static const char *PARTNER;      /* --partner: a path evaluated first, to become the comparison partner */
static int PARTNER_ROOT = 1;

static int one_path(const char *str, int rootsel)
{
    SL = &solo_slot;
    struct ores *o = xmalloc(sizeof *o);
    size_t len = strlen(str);
    if (PARTNER != NULL) {
        struct pout out;
        printf("partner \"%s\", %s mode\n", PARTNER, PARTNER_ROOT ? "root" : "relative");
        fflush(stdout);
        eval_path(PARTNER, strlen(PARTNER), PARTNER_ROOT != 0, o, &out);
    }
    for (int mode = 0; mode < 2; mode++) {
        bool root = mode == 0;
        if (rootsel >= 0 && (rootsel == 1) != root)
            continue;
        struct pout out;
        memset(&out, 0, sizeof out);
        printf("path \"%s\" (%zu bytes), %s mode\n", str, len, root ? "root" : "relative");
        fflush(stdout);
        eval_path(str, len, root, o, &out);
        printf("   documented syntax: %s (%s), %d components; attr_path_parse: %s", o->verdict == O_ACCEPT ?
               "must accept" : o->verdict == O_EITHER ? "either" : "must reject", WHY[o->why], o->ncomps,
               out.accepted ? "accepted" : "rejected");
        if (out.accepted)
            printf("; printed as \"%s\"", out.printed);
        printf("\n");
        fflush(stdout);
    }
    flush_prev();
    free(o);
    return print_solo_findings();
}

static int usage(void)
{
    fprintf(stderr,
            "usage: h_map --bfs [--keys 1|2|3] [--workers W] [--deadline SECONDS] [--crashdir DIR]\n"
            "       h_map --paths [--maxlen L] [--workers W] [--deadline SECONDS] [--crashdir DIR]\n"
            "       h_map --large [--thorough] [--workers W] [--crashdir DIR]\n"
            "       h_map [--keys K] --replay-ops 'op,op,...' | --replay-ops large:n=N:style=S\n"
            "       h_map [--root 0|1] [--partner 'string' --partner-root 0|1] --one-path 'string'\n");
    return 2;
}

int main(int argc, char **argv)
{
    enum { M_NONE, M_BFS, M_PATHS, M_LARGE, M_ROPS, M_OPATH } mode = M_NONE;
    const char *arg = NULL;
    bool thorough = false;
    int rootsel = -1;
    double deadline = 0;

    for (int i = 1; i < argc; i++) {
        const char *a = argv[i];
        bool more = i + 1 < argc;
        if (strcmp(a, "--bfs") == 0)
            mode = M_BFS;
        else if (strcmp(a, "--paths") == 0)
            mode = M_PATHS;
        else if (strcmp(a, "--large") == 0)
            mode = M_LARGE;
        else if (strcmp(a, "--thorough") == 0)
            thorough = true;
        else if (strcmp(a, "--replay-ops") == 0 && more) {
            mode = M_ROPS;
            arg = argv[++i];
        } else if (strcmp(a, "--one-path") == 0 && more) {
            mode = M_OPATH;
            arg = argv[++i];
        } else if (strcmp(a, "--keys") == 0 && more)
            NKEYS = atoi(argv[++i]);
        else if (strcmp(a, "--maxlen") == 0 && more)
            MAXLEN = atoi(argv[++i]);
        else if (strcmp(a, "--workers") == 0 && more)
            W = atoi(argv[++i]);
        else if (strcmp(a, "--deadline") == 0 && more)
            deadline = atof(argv[++i]);
        else if (strcmp(a, "--crashdir") == 0 && more)
            CRASHDIR = argv[++i];
        else if (strcmp(a, "--root") == 0 && more)
            rootsel = atoi(argv[++i]);
        else if (strcmp(a, "--partner") == 0 && more)
            PARTNER = argv[++i];
        else if (strcmp(a, "--partner-root") == 0 && more)
            PARTNER_ROOT = atoi(argv[++i]);
        else
            return usage();
    }
    if (mode == M_NONE || NKEYS < 1 || NKEYS > MAXKEYS || MAXLEN < 0 || MAXLEN > 8 || W < 1 || W > MAXW)
        return usage();
    if (deadline > 0)
        T_END = now_s() + deadline;
    init_values();

    if (mode == M_ROPS || mode == M_OPATH)
        watchdog(600);
    if (mode == M_ROPS)
        return replay_ops(arg);
    if (mode == M_OPATH)
        return one_path(arg, rootsel);

    SH = shared_alloc(sizeof *SH);
    SL = &SH->slot[0];
    switch (mode) {
    case M_BFS: return run_bfs();
    case M_PATHS: return run_paths();
    case M_LARGE: return run_large(thorough);
    default: return usage();
    }
}
