/* h_ctl - C14: the control interface is passive and safe.
 *
 * One execution: an application (tasks A and B: two endpoints of one connection running script T2 of
 * h_msg - both directions at once - over non-blocking sockets) with XCM_CTL pointing at a per-pid
 * directory, and one to three CONTROL-CLIENT tasks that speak (and mis-speak) common/ctl_proto.h over real
 * AF_UNIX SOCK_SEQPACKET sockets to the control file of one TARGET socket of the application (the server
 * socket, the connecting side's connection or the accepted connection), or drive libxcmctl/xcmc.c
 * (xcmc_open / xcmc_attr_get / xcmc_attr_get_all) against it.
 *
 * The library services its control descriptors only every 256th data-path call (64th after EAGAIN,
 * consider_ctl in xcm_tp.c), so the owner of the target socket follows every step of its script with a
 * macro step "pump": N xcm_finish calls without inner scheduling points (deviations offered only at the
 * control interface's own accept/recv/send).  N=257: the control descriptors are served inside the pump;
 * N=256: inside the application's NEXT real xcm_send/xcm_receive/xcm_finish.
 *
 * Oracle (property text of C14, nothing more):
 *   - no crash/abort/sanitizer report in the application (explorer verdict; refined in checks/C14.py);
 *   - chan: every message is delivered exactly, whole, in order, whatever the clients do;
 *   - no reply datagram (all 37904 bytes of it) and no value handed out by xcmc contains 16 consecutive
 *     characters of the private key's base64 body;
 *   - every reply to a well-formed request equals what xcm_attr_get / xcm_attr_get_all answered IN-PROCESS at
 *     the very moment the library computed the reply (interposed with --wrap, so there is no timing slack),
 *     or is a rejection with the same errno; a get-all reply may omit an attribute only if its value does
 *     not fit the 512-byte field, if it is tls.key, or if the 64-entry table is full (DESIGN 4.1) - never
 *     return it altered, with a length above the field, or under a wrong message type;
 *   - passivity: every application call made while sessions are served returns what it returns without a control
 *     client - idle xcm_receive / xcm_accept -1(NULL)/EAGAIN, xcm_finish 0 (or -1/EAGAIN while something is under
 *     way), script calls never a terminal errno (value AND errno are compared);
 *   - a well-formed request on a healthy session is answered (no silent drop, no lost wake-up);
 *   - the control files are gone when their sockets have been closed.
 *
 * params: tp=ux|uxf|tcp|tls  target=srv|a|b  big=0|1  scert=<dir> ccert=<dir>  names=<n>
 *         c0=<spec> c1=<spec> c2=<spec>   spec: r:<items> | x:<items> | r*<maxlen> | x*<maxlen>
 *         alpha=<items>  rel=<stage>  svc=all|none  pumpn=<n>  menu=<hex>  horizon=<n>  mon=0|1
 *         idle=0|1 (default 1): once the owner's script is complete the control interface is served through idle
 *                    xcm_receive / xcm_accept calls (each must say EAGAIN) instead of xcm_finish pumps
 *         probe16=1: C16 probe - sessions are kept open at the end and xcm_fd of the idle target must be quiet
 *                    (an empty session "r:" as the last client is the one beyond the two-entry session table)
 *   items  a get-attr xcm.type          b get-attr <long attribute>      k get-attr tls.key
 *          u get-attr no.such.attr      l get-attr <list element>        g get-all
 *          z 0-byte datagram            o 1-byte datagram                m size-1          p size+1
 *          t unknown message type       n get-attr, no NUL up to the end of the datagram
 *          N get-attr, 64 non-NUL name bytes, zeros behind              x get-attr, reply never read
 *          X get-all, reply never read
 */
#define _GNU_SOURCE
#include "hcommon.h"

#include <dirent.h>
#include <fcntl.h>
#include <sys/socket.h>
#include <sys/stat.h>
#include <sys/un.h>

#include <common_ctl.h>
#include <ctl_proto.h>
#include <xcmc.h>

#define MSGSZ ((int)sizeof(struct ctl_proto_msg))
#define MAXCL 3
#define MAXMSG 65535
#define H_UX_NAME_MAX 107      /* UNIX_PATH_MAX - 1 */

#define V(sig, ...) mc_violation(sig, __VA_ARGS__)

/* ---- configuration ------------------------------------------------------------------------------ */
static char g_tp[8], g_target[8], g_scert[256], g_ccert[256], g_alpha[32], g_svc[8];
static int g_big, g_names, g_rel, g_pumpn, g_ncl;
static char g_dir[160];              /* XCM_CTL of this execution */
static char g_addr[320];
static char g_long_attr[64], g_list_attr[64];

/* ---- application ----------------------------------------------------------------------------------- */
struct side {
    const char *name;
    int idx;
    struct xcm_socket *s;
    int fd0;
    int n_acc, acc_m[8], acc_len[8], inflight, inflight_len;
    int n_rcv, pc, closed, failed;
    char ctl_path[160];
};
static struct side A, B;
static struct xcm_socket *g_server;
static char g_srv_path[160];
static int g_srv_closed;
static unsigned char *g_buf[2];
static int g_stage;                  /* application operations completed so far (both tasks) */
static int g_pumps;                  /* pumps done so far */
static int g_clients_done;

/* the target of the control clients */
static struct xcm_socket *g_tsock;   /* NULL until it exists */
static char g_tpath[160];
static int64_t g_tref = -1;
static int g_tclosed;

/* ---- private key material that must never appear ---------------------------------------------------- */
#define KEYWIN 16
static char *g_keywin;               /* n_keywin windows of KEYWIN bytes, sorted */
static int g_nkeywin;

static int is_b64(unsigned char c)
{
    return (c >= 'A' && c <= 'Z') || (c >= 'a' && c <= 'z') || (c >= '0' && c <= '9') || c == '+' || c == '/' || c == '=';
}

static int win_cmp(const void *a, const void *b) { return memcmp(a, b, KEYWIN); }

static char *slurp(const char *dir, const char *file, size_t *len)
{
    char p[400];
    snprintf(p, sizeof p, "%s/%s", dir, file);
    FILE *f = fopen(p, "rb");
    if (!f)
        return NULL;
    char *b = malloc(1 << 16);
    size_t n = fread(b, 1, (1 << 16) - 1, f);
    fclose(f);
    b[n] = 0;
    if (len)
        *len = n;
    return b;
}

/* every 16-character window of every base64 line of the key's PEM body - except those that also occur in the
   PUBLIC credentials (certificate, trust chain): a PKCS#8 key repeats the algorithm identifier and the public key,
   and base64 can align them the same way; handing those out discloses nothing of tls.key */
static void key_windows_add(const char *pem, const char *pub1, const char *pub2)
{
    const char *p = pem;
    while (*p) {
        const char *e = strchr(p, '\n');
        size_t l = e ? (size_t)(e - p) : strlen(p);
        if (l >= KEYWIN && p[0] != '-') {
            g_keywin = realloc(g_keywin, (size_t)(g_nkeywin + (int)l) * KEYWIN);
            for (size_t i = 0; i + KEYWIN <= l; i++) {
                if ((pub1 && memmem(pub1, strlen(pub1), p + i, KEYWIN)) || (pub2 && memmem(pub2, strlen(pub2), p + i, KEYWIN)))
                    continue;
                memcpy(g_keywin + (size_t)(g_nkeywin++) * KEYWIN, p + i, KEYWIN);
            }
        }
        if (!e)
            break;
        p = e + 1;
    }
    qsort(g_keywin, g_nkeywin, KEYWIN, win_cmp);
}

/* offset of the first key window inside buf, or -1 */
static long key_scan(const unsigned char *buf, size_t len)
{
    size_t run = 0;
    if (!g_nkeywin)
        return -1;
    for (size_t i = 0; i < len; i++) {
        if (is_b64(buf[i])) {
            if (++run >= KEYWIN && bsearch(buf + i + 1 - KEYWIN, g_keywin, g_nkeywin, KEYWIN, win_cmp))
                return (long)(i + 1 - KEYWIN);
        } else
            run = 0;
    }
    return -1;
}

/* ---- in-process ground truth: what xcm_attr_get / xcm_attr_get_all answered to the library itself ----- */
struct rec_attr {
    char name[96];
    int type;
    size_t len;
    unsigned char *val;
};
struct rec {
    int kind;                        /* 0 get, 1 get-all */
    struct xcm_socket *sock;
    char name[XCM_ATTR_NAME_MAX + 1];
    int name_open;                   /* no NUL within the 64-byte field */
    int rc, err, type;
    size_t capacity;
    unsigned char val[CTL_ATTR_VALUE_MAX];
    int nattrs;
    struct rec_attr *attrs;
};
#define MAXREC 48
static struct rec g_rec[MAXREC];
static int g_nrec, g_rec_overflow;
static int g_own;                    /* >0: the harness itself is asking */

int __real_xcm_attr_get(struct xcm_socket *s, const char *name, enum xcm_attr_type *type, void *value, size_t capacity);
void __real_xcm_attr_get_all(struct xcm_socket *s, xcm_attr_cb cb, void *cb_data);

int __wrap_xcm_attr_get(struct xcm_socket *s, const char *name, enum xcm_attr_type *type, void *value, size_t capacity)
{
    if (g_own)
        return __real_xcm_attr_get(s, name, type, value, capacity);
    /* a call from the control interface.  The name comes from the wire: look at the 64-byte field only */
    struct rec *r = NULL;
    if (g_nrec < MAXREC) {
        r = &g_rec[g_nrec];
        memset(r, 0, sizeof *r);
        r->sock = s;
        size_t nl = strnlen(name, XCM_ATTR_NAME_MAX);
        memcpy(r->name, name, nl);
        r->name_open = nl == XCM_ATTR_NAME_MAX;
        r->capacity = capacity;
    } else
        g_rec_overflow = 1;
    enum xcm_attr_type t = 0;
    int rc = __real_xcm_attr_get(s, name, &t, value, capacity);
    int e = errno;
    if (type)
        *type = t;
    if (r) {
        r->rc = rc;
        r->err = rc < 0 ? e : 0;
        r->type = t;
        if (rc > 0 && (size_t)rc <= sizeof r->val && (size_t)rc <= capacity)
            memcpy(r->val, value, rc);
        g_nrec++;
    }
    errno = e;
    return rc;
}

struct tramp {
    xcm_attr_cb cb;
    void *data;
    struct rec *r;
};

static void tramp_cb(const char *name, enum xcm_attr_type type, void *value, size_t len, void *data)
{
    struct tramp *t = data;
    if (t->r && t->r->nattrs < 400) {
        struct rec_attr *a = &t->r->attrs[t->r->nattrs++];
        snprintf(a->name, sizeof a->name, "%s", name);
        a->type = type;
        a->len = len;
        a->val = malloc(len ? len : 1);
        memcpy(a->val, value, len);
    }
    t->cb(name, type, value, len, t->data);
}

void __wrap_xcm_attr_get_all(struct xcm_socket *s, xcm_attr_cb cb, void *cb_data)
{
    if (g_own) {
        __real_xcm_attr_get_all(s, cb, cb_data);
        return;
    }
    struct tramp t = { .cb = cb, .data = cb_data, .r = NULL };
    if (g_nrec < MAXREC) {
        t.r = &g_rec[g_nrec++];
        memset(t.r, 0, sizeof *t.r);
        t.r->kind = 1;
        t.r->sock = s;
        t.r->attrs = calloc(400, sizeof(struct rec_attr));
    } else
        g_rec_overflow = 1;
    __real_xcm_attr_get_all(s, tramp_cb, &t);
}

/* ---- control directory ------------------------------------------------------------------------------- */
static char g_known[8][64];
static int g_nknown;

static int dir_list(char out[][64], int max)
{
    int n = 0;
    DIR *d = opendir(g_dir);
    if (!d)
        return 0;
    struct dirent *de;
    while ((de = readdir(d)) != NULL) {
        if (de->d_name[0] == '.')
            continue;
        if (n < max)
            snprintf(out[n], 64, "%s", de->d_name);
        n++;
    }
    closedir(d);
    return n;
}

/* the control file that appeared with the socket just created */
static void learn_ctl(const char *who, char *path, size_t n, int64_t *ref)
{
    char now[16][64];
    int cnt = dir_list(now, 16), found = 0;
    path[0] = 0;
    for (int i = 0; i < cnt && i < 16; i++) {
        int known = 0;
        for (int k = 0; k < g_nknown; k++)
            if (!strcmp(g_known[k], now[i]))
                known = 1;
        if (known)
            continue;
        pid_t pid;
        int64_t r;
        if (!ctl_parse_info(now[i], &pid, &r) || pid != getpid())
            mc_fail("internal/ctl-file-name", "unexpected file %s in the control directory", now[i]);
        snprintf(path, n, "%s/%s", g_dir, now[i]);
        if (ref)
            *ref = r;
        if (g_nknown < 8)
            snprintf(g_known[g_nknown++], 64, "%s", now[i]);
        found++;
    }
    if (found != 1)
        mc_fail("internal/ctl-file-missing", "%d new control files after creating %s (XCM_CTL=%s)", found, who, g_dir);
    mc_trace("%s has control file %s", who, path);
}

static void check_ctl_gone(const char *who, const char *path)
{
    struct stat st;
    if (path[0] && lstat(path, &st) == 0)
        V("C14/control-file-left-after-close", "%s has been closed with xcm_close but its control file %s still exists",
          who, path + strlen(g_dir) + 1);
}

/* ---- control clients (declared here, defined below) -------------------------------------------------- */
struct outst {
    char item;
    int lo;                  /* g_nrec when the request was sent */
    int healthy;             /* nothing malformed had been sent on the session before */
    char name[XCM_ATTR_NAME_MAX + 1];
};

struct client {
    int idx;
    char name[8];
    int xcmc;
    int free_len;            /* > 0: the session is a free choice of up to free_len items */
    char items[8];
    int nitems;
    int fd;
    int poisoned;            /* a malformed datagram has been sent: the server may have dropped us */
    struct outst q[8];
    int qh, qt;
    int waiting;             /* item whose reply is being waited for (0 = none) */
    int waiting_owed;        /* ... and a reply is owed (well-formed request on a healthy session) */
    int pumps_at_send;
    int done;
    int parked;              /* probe16: items finished, session kept open */
    int step;
    unsigned char *buf;
};
static struct client g_cl[MAXCL];

/* ---- pump ------------------------------------------------------------------------------------------- */
/* The explorer files crashes under "signal + API call in progress"; the request sent last is made part of that
   label so that two different crashes do not hide behind one another within one exploration. */
static char g_last_item;

static const char *api_label(const char *base)
{
    static __thread char lb[40];
    if (!g_last_item)
        return base;
    snprintf(lb, sizeof lb, "%s[%c]", base, g_last_item);
    return lb;
}

/* Passivity: the control interface is served at the END of the application's own calls, so every call made
   while sessions are being served must return what the same call returns in the same state without any control
   client - return value AND errno. */
static void not_passive(const char *call, const char *got, const char *want)
{
    char sig[160];
    snprintf(sig, sizeof sig, "C14/passivity/%s/%s-instead-of-%s/tp=%s", call, got, want, g_tp);
    V(sig, "%s on the idle target socket returned %s while control sessions were being served; without a control client "
      "the same call in the same state returns %s (last control item sent: '%c')", call, got, want, g_last_item ? g_last_item : '-');
}

static void pump(struct xcm_socket *s)
{
    unsigned saved = env_cfg()->io_menu;
    int bad_errno = 0;
    env_cfg()->io_menu = saved & (ENV_IO_SEQPKT | ENV_IO_ACCEPT);
    mc_api_begin(api_label("pump"), 1);
    for (int i = 0; i < g_pumpn; i++)
        if (xcm_finish(s) < 0 && errno != EAGAIN && !bad_errno)
            bad_errno = errno;
    mc_api_end();
    env_cfg()->io_menu = saved;
    g_pumps++;
    mc_count(2, 1);
    /* no fault is injected and the peer is alive: xcm_finish says 0, or -1/EAGAIN while something is under way */
    if (bad_errno && !A.failed && !B.failed && !A.closed && !B.closed)
        not_passive("xcm_finish", errname(bad_errno), "0-or-EAGAIN");
}

/* The same service for a target that is IDLE (script complete, everything received and flushed, peer alive; a
   server socket with no connection pending): the calls an event loop makes when woken for nothing.  Each of them
   ends in EAGAIN, which advances the library's cadence counter by 64: the fifth serves the control interface -
   inside a call whose own result is -1/EAGAIN (NULL/EAGAIN for xcm_accept). */
static void pump_idle(struct side *x, struct xcm_socket *s)
{
    unsigned saved = env_cfg()->io_menu;
    int server = s == g_server;
    char got[48] = "";
    env_cfg()->io_menu = saved & (ENV_IO_SEQPKT | ENV_IO_ACCEPT);
    mc_api_begin(api_label(server ? "idle-xcm_accept" : "idle-xcm_receive"), 1);
    for (int i = 0; i < 5; i++) {
        if (server) {
            struct xcm_socket *c = xcm_accept(s);
            int e = errno;
            if (c) {
                xcm_close(c);
                if (!got[0])
                    snprintf(got, sizeof got, "a-connection");
            } else if (e != EAGAIN && !got[0])
                snprintf(got, sizeof got, "%s", errname(e));
        } else {
            int rc = xcm_receive(s, g_buf[x->idx], MAXMSG);
            int e = errno;
            if (rc >= 0 && !got[0])
                snprintf(got, sizeof got, "%d", rc);
            else if (rc < 0 && e != EAGAIN && !got[0])
                snprintf(got, sizeof got, "%s", errname(e));
        }
    }
    mc_api_end();
    env_cfg()->io_menu = saved;
    g_pumps++;
    mc_count(2, 1);
    mc_count(6, 5);
    if (got[0])
        not_passive(server ? "xcm_accept" : "xcm_receive", got, "EAGAIN");
}

static int owns_target(struct side *x)
{
    if (!strcmp(g_target, "a"))
        return x == &A;
    return x == &B;   /* B owns its connection and the server socket */
}

/* The control clients come into being when the application has got as far as rel= says (rel=99: when both
   scripts have run to their end); the task that gets there yields once, so that the default schedule lets them in
   at that point.  (Tasks created up front would only add start-up permutations that differ in nothing.) */
static void task_client(void *arg);
static void task_b(void *arg);
static int g_released;

static void maybe_release(void)
{
    if (g_released || !(g_tpath[0] || g_tclosed))
        return;
    if (!(g_stage >= g_rel || ((A.pc >= 5 || A.failed) && (B.pc >= 5 || B.failed))))
        return;
    g_released = 1;
    for (int i = 0; i < g_ncl; i++)
        mc_task_create(g_cl[i].name, task_client, &g_cl[i]);
    mc_set_progress(0);
}

static void after_op(struct side *x)
{
    g_stage++;
    if (owns_target(x) && g_tsock && !g_tclosed)
        pump(g_tsock);
    maybe_release();
}

/* ---- chan oracle ------------------------------------------------------------------------------------- */
static struct side *peer_of(struct side *x) { return x == &A ? &B : &A; }

static void on_received(struct side *rx, const unsigned char *buf, int rc)
{
    struct side *tx = peer_of(rx);
    char sig[128];
    int k = rx->n_rcv++;
    int m, len;
    if (k < tx->n_acc) {
        m = tx->acc_m[k];
        len = tx->acc_len[k];
    } else if (k == tx->n_acc && tx->inflight >= 0) {
        m = tx->inflight;
        len = tx->inflight_len;
    } else {
        snprintf(sig, sizeof sig, "C14/data-path/message-never-sent/tp=%s", g_tp);
        V(sig, "%s obtained a %d-byte message as receive #%d, the peer had %d sends accepted", rx->name, rc, k + 1, tx->n_acc);
        return;
    }
    if (rc != len) {
        snprintf(sig, sizeof sig, "C14/data-path/wrong-length/tp=%s", g_tp);
        V(sig, "%s receive #%d returned %d bytes, message %d has %d", rx->name, k + 1, rc, m, len);
        return;
    }
    long d = pay_diff(buf, m, rc);
    if (d >= 0) {
        snprintf(sig, sizeof sig, "C14/data-path/altered-message/tp=%s", g_tp);
        V(sig, "%s receive #%d differs from message %d at offset %ld", rx->name, k + 1, m, d);
    }
}

static void data_error(struct side *x, const char *op, int err)
{
    char sig[128];
    x->failed = 1;
    if (peer_of(x)->failed || peer_of(x)->closed)
        return;
    snprintf(sig, sizeof sig, "C14/data-path/%s-failed/%s/tp=%s", op, errname(err), g_tp);
    V(sig, "%s: %s failed with %s although the peer is alive and no fault was injected", x->name, op, errname(err));
}

static int cond_wait(struct side *x, int cond, const char *why)
{
    if (API("xcm_await", 1, xcm_await(x->s, cond)) < 0)
        return -1;
    mc_wait_readable(x->fd0, why);
    return 0;
}

static int app_send(struct side *x, int m, int len)
{
    unsigned char *buf = g_buf[x->idx];
    pay_fill(buf, m, len);
    for (;;) {
        mc_sched_point("send");
        x->inflight = m;
        x->inflight_len = len;
        int rc = API(api_label("xcm_send"), 1, xcm_send(x->s, buf, len));
        int err = rc < 0 ? errno : 0;
        x->inflight = -1;
        mc_observe("%s send m%d len=%d -> %d %s", x->name, m, len, rc, rc < 0 ? errname(err) : "");
        if (rc == 0) {
            x->acc_m[x->n_acc] = m;
            x->acc_len[x->n_acc++] = len;
            mc_set_progress(1);
            after_op(x);
            return 0;
        }
        if (err != EAGAIN) {
            data_error(x, "send", err);
            return -1;
        }
        mc_set_progress(0);
        after_op(x);
        if (cond_wait(x, XCM_SO_SENDABLE, "send-eagain") < 0)
            return -1;
    }
}

static int app_recv(struct side *x)
{
    unsigned char *buf = g_buf[x->idx];
    for (;;) {
        mc_sched_point("recv");
        int rc = API(api_label("xcm_receive"), 1, xcm_receive(x->s, buf, MAXMSG));
        int err = rc < 0 ? errno : 0;
        mc_observe("%s recv -> %d %s", x->name, rc, rc < 0 ? errname(err) : "");
        if (rc > 0) {
            on_received(x, buf, rc);
            mc_set_progress(1);
            after_op(x);
            return 0;
        }
        if (rc == 0) {
            if (!peer_of(x)->closed) {
                char sig[96];
                snprintf(sig, sizeof sig, "C14/data-path/eof-without-close/tp=%s", g_tp);
                V(sig, "%s: xcm_receive returned 0 although the peer has not closed", x->name);
            }
            x->failed = 1;
            return -1;
        }
        if (err != EAGAIN) {
            data_error(x, "receive", err);
            return -1;
        }
        mc_set_progress(0);
        after_op(x);
        if (cond_wait(x, XCM_SO_RECEIVABLE, "recv-eagain") < 0)
            return -1;
    }
}

static int app_finish(struct side *x)
{
    for (;;) {
        mc_sched_point("finish");
        int rc = API(api_label("xcm_finish"), 1, xcm_finish(x->s));
        int err = rc < 0 ? errno : 0;
        mc_observe("%s finish -> %d %s", x->name, rc, rc < 0 ? errname(err) : "");
        if (rc == 0) {
            mc_set_progress(1);
            after_op(x);
            return 0;
        }
        if (err != EAGAIN) {
            data_error(x, "finish", err);
            return -1;
        }
        mc_set_progress(0);
        after_op(x);
        if (cond_wait(x, 0, "finish-eagain") < 0)
            return -1;
    }
}

/* script T2 of h_msg: both directions at once */
static void run_script(struct side *x)
{
    static const int len_a[2] = { 2, 300 }, len_b[2] = { 300, 1 };
    const int *lens = x == &A ? len_a : len_b;
    x->pc = 0;
    for (int i = 0; i < 2; i++, x->pc++)
        if (app_send(x, x->idx * 100 + i, lens[i]) < 0)
            return;
    for (int i = 0; i < 2; i++, x->pc++)
        if (app_recv(x) < 0)
            return;
    if (app_finish(x) < 0)
        return;
    x->pc++;
    maybe_release();
}

/* the owner of the target keeps its event loop running while control sessions are open */
/* ---- C16 probe (probe16=1): with the control sessions STILL OPEN and everything they asked for answered and
   read, the application's descriptor must be quiet.  A client that has finished its items "parks" (keeps its
   session) until the probe has been taken; a client with an empty session (the one meant to sit beyond the
   two-entry session table) connects only when all clients before it have parked, so that it really is the one
   left un-accepted in the listen queue. */
static int g_probe16, g_probe_done, g_idle = 1;
static int g_settled;                /* clients parked or gone */

static int probe_over(void *arg)
{
    (void)arg;
    return g_probe_done || g_tclosed;
}

static void park(struct client *c)
{
    if (!g_probe16)
        return;
    c->parked = 1;
    g_settled++;
    mc_observe("%s keeps its session open", c->name);
    mc_wait_cond(probe_over, NULL, "parked");
}

static int earlier_clients_settled(void *arg)
{
    struct client *c = arg;
    return g_settled >= c->idx || g_tclosed;
}

static int svc_goal_met(void)
{
    if (g_probe16 && !g_probe_done)
        return g_settled >= g_ncl && A.pc >= 5 && B.pc >= 5;
    return g_clients_done >= g_ncl;
}

static int svc_ready(void *arg)
{
    (void)arg;
    if (svc_goal_met())
        return 1;
    return (fd_readable_mask(xcm_fd(g_tsock)) & POLLIN) != 0;
}

static void probe16(struct side *x)
{
    int open_sessions = 0, server = g_tsock == g_server;
    if (A.failed || B.failed || g_tclosed)
        return;
    for (int i = 0; i < g_ncl; i++) {
        struct client *c = &g_cl[i];
        if (!c->parked)
            return;                     /* a session that failed on the way: nothing to state about it */
        if (c->qh != c->qt || c->poisoned)
            return;                     /* replies left unread / malformed traffic: not the situation C16 names */
        open_sessions++;
    }
    if (!server && API("xcm_finish", 1, xcm_finish(g_tsock)) < 0)
        return;
    /* service the control interface until it has nothing left to do: a connection queued while the session
       table has room is accepted by the next rounds, a reply refused with EAGAIN is sent by the next one.  With
       the table full the library takes its listening descriptor out of the epoll set, so a third connection
       waiting in the listen queue is NOT a reason to be readable. */
    int cond = server ? XCM_SO_ACCEPTABLE : 0, m = 0;
    for (int round = 0; round < 8; round++) {
        pump(g_tsock);
        if (API("xcm_await", 1, xcm_await(g_tsock, cond)) < 0)
            return;
        m = 0;
        for (int i = 0; i < 3; i++)
            m |= fd_readable_mask(xcm_fd(g_tsock));
        if (!m)
            break;
    }
    mc_count(5, 1);
    mc_observe("%s C16 probe: %d open control sessions, xcm_fd events 0x%x", x->name, open_sessions, m);
    if (m) {
        char sig[160];
        snprintf(sig, sizeof sig, "C16/readable-while-idle/ctl-sessions=%d/target=%s/tp=%s", open_sessions,
                 server ? "server" : "conn", g_tp);
        V(sig, "%s: traffic finished and flushed, %d control session(s) open with every request answered and read, the control "
          "interface serviced 8 more rounds (8 x %d xcm_finish), awaiting %s: xcm_fd still reports 0x%x - an event loop "
          "would spin", x->name, open_sessions, g_pumpn, server ? "XCM_SO_ACCEPTABLE with no connection pending" : "nothing (condition 0)", m);
    }
    API("xcm_await", 1, xcm_await(g_tsock, 0));
}

static void serve(struct side *x)
{
    if (!owns_target(x) || !g_tsock || g_tclosed || !strcmp(g_svc, "none"))
        return;
    for (;;) {
        while (!svc_goal_met()) {
            if (API("xcm_await", 1, xcm_await(g_tsock, 0)) < 0)
                return;
            mc_wait_cond(svc_ready, NULL, "serve");
            if (svc_goal_met())
                break;
            /* idle target, living peer: serve through the calls of an event loop woken for nothing */
            if (g_idle && x->pc >= 5 && !x->failed && !peer_of(x)->failed && !peer_of(x)->closed)
                pump_idle(x, g_tsock);
            else
                pump(g_tsock);
            mc_observe("%s served the control interface (pump %d)", x->name, g_pumps);
            mc_set_progress(0);
        }
        if (!g_probe16 || g_probe_done)
            break;
        probe16(x);
        g_probe_done = 1;
    }
    /* one more round so that the sessions closed last are taken down by the library itself */
    pump(g_tsock);
}

static int owner_has_closed(void *arg)
{
    (void)arg;
    struct side *o = !strcmp(g_target, "a") ? &A : &B;
    return g_tclosed || o->failed;
}

static void close_side(struct side *x)
{
    if (!x->s)
        return;
    /* the other endpoint keeps its connection open while the owner of the target still serves sessions */
    if (!owns_target(x) && strcmp(g_svc, "none"))
        mc_wait_cond(owner_has_closed, NULL, "linger");
    mc_sched_point("close");
    if (g_tsock == x->s)
        g_tclosed = 1;
    API(api_label("xcm_close"), 1, xcm_close(x->s));
    mc_observe("%s close", x->name);
    x->s = NULL;
    x->closed = 1;
    check_ctl_gone(x->name, x->ctl_path);
}

/* ---- socket attributes --------------------------------------------------------------------------------- */
static void add_names(struct xcm_attr_map *m)
{
    if (g_names <= 0)
        return;
    char *l = malloc(64 * (g_names + 4));
    strcpy(l, "small.verif.test:rsa.verif.test:peer.verif.test");
    for (int i = 0; i < g_names; i++)
        sprintf(l + strlen(l), ":n%03d.many.verif.test", i);
    xcm_attr_map_add_bool(m, "tls.verify_peer_name", true);
    xcm_attr_map_add_str(m, "tls.peer_names", l);
    free(l);
}

static struct xcm_attr_map *mk_attrs(int server_side, int with_creds)
{
    struct xcm_attr_map *m = xcm_attr_map_create();
    xcm_attr_map_add_bool(m, "xcm.blocking", false);
    if (!strcmp(g_tp, "tls") && with_creds) {
        const char *dir = server_side ? g_scert : g_ccert;
        if (g_big) {
            static const char *files[3] = { "cert.pem", "key.pem", "tc.pem" };
            static const char *attrs[3] = { "tls.cert", "tls.key", "tls.tc" };
            for (int i = 0; i < 3; i++) {
                size_t n;
                char *d = slurp(dir, files[i], &n);
                if (!d)
                    mc_fail("internal/credentials", "cannot read %s/%s", dir, files[i]);
                xcm_attr_map_add_bin(m, attrs[i], d, n);
                free(d);
            }
        } else {
            char p[400];
            snprintf(p, sizeof p, "%s/cert.pem", dir);
            xcm_attr_map_add_str(m, "tls.cert_file", p);
            snprintf(p, sizeof p, "%s/key.pem", dir);
            xcm_attr_map_add_str(m, "tls.key_file", p);
            snprintf(p, sizeof p, "%s/tc.pem", dir);
            xcm_attr_map_add_str(m, "tls.tc_file", p);
        }
        add_names(m);
    }
    return m;
}

/* ---- application tasks ----------------------------------------------------------------------------------- */
static void task_a(void *arg)
{
    (void)arg;
    struct side *x = &A;
    struct xcm_attr_map *at = mk_attrs(0, 1);
    mc_task_create("B", task_b, NULL);
    mc_sched_point("connect");
    x->s = API("xcm_connect_a", 1, xcm_connect_a(g_addr, at));
    xcm_attr_map_destroy(at);
    if (!x->s) {
        x->failed = 1;
        mc_fail("internal/connect", "xcm_connect_a(%s): %s", g_addr, errname(errno));
    }
    learn_ctl("A", x->ctl_path, sizeof x->ctl_path, !strcmp(g_target, "a") ? &g_tref : NULL);
    x->fd0 = xcm_fd(x->s);
    if (!strcmp(g_target, "a")) {
        snprintf(g_tpath, sizeof g_tpath, "%s", x->ctl_path);
        g_tsock = x->s;
    }
    mc_observe("A connected");
    after_op(x);
    run_script(x);
    serve(x);
    close_side(x);
}

static void task_b(void *arg)
{
    (void)arg;
    struct side *x = &B;
    struct xcm_attr_map *at = mk_attrs(1, 0);
    for (;;) {
        if (API("xcm_await", 1, xcm_await(g_server, XCM_SO_ACCEPTABLE)) < 0)
            break;
        mc_wait_readable(xcm_fd(g_server), "accept-wait");
        mc_sched_point("accept");
        x->s = API("xcm_accept_a", 1, xcm_accept_a(g_server, at));
        if (x->s)
            break;
        mc_observe("B accept -> %s", errname(errno));
        if (errno != EAGAIN) {
            x->failed = 1;
            mc_fail("internal/accept", "xcm_accept_a: %s", errname(errno));
        }
        mc_set_progress(0);
        if (!strcmp(g_target, "srv"))
            pump(g_server);
    }
    xcm_attr_map_destroy(at);
    if (!x->s)
        return;
    API("xcm_await", 1, xcm_await(g_server, 0));
    learn_ctl("B", x->ctl_path, sizeof x->ctl_path, !strcmp(g_target, "b") ? &g_tref : NULL);
    x->fd0 = xcm_fd(x->s);
    if (!strcmp(g_target, "b")) {
        snprintf(g_tpath, sizeof g_tpath, "%s", x->ctl_path);
        g_tsock = x->s;
    }
    mc_observe("B accepted");
    after_op(x);
    run_script(x);
    serve(x);
    close_side(x);
    mc_sched_point("close-server");
    if (g_tsock == g_server)
        g_tclosed = 1;
    API(api_label("xcm_close"), 1, xcm_close(g_server));
    mc_observe("B closed the server socket");
    g_server = NULL;
    g_srv_closed = 1;
    check_ctl_gone("the server socket", g_srv_path);
}

/* ---- control clients ----------------------------------------------------------------------------------- */
static void park(struct client *c);
static int earlier_clients_settled(void *arg);

static const char *item_attr(char it)
{
    switch (it) {
    case 'a': case 'x': case 'p': return "xcm.type";
    case 'b': return g_long_attr;
    case 'k': return "tls.key";
    case 'u': return "no.such.attr";
    case 'l': return g_list_attr;
    default: return "";
    }
}

static int item_is_getall(char it) { return it == 'g' || it == 'X'; }
static int item_is_wellformed(char it) { return strchr("abkulgxX", it) != NULL; }
static int item_reads(char it) { return it != 'x' && it != 'X'; }

static int build_request(char it, unsigned char *buf)
{
    struct ctl_proto_msg *m = (struct ctl_proto_msg *)buf;
    memset(buf, 0, MSGSZ + 1);
    switch (it) {
    case 'a': case 'b': case 'k': case 'u': case 'l': case 'x':
        m->type = ctl_proto_type_get_attr_req;
        snprintf(m->get_attr_req.attr_name, XCM_ATTR_NAME_MAX, "%s", item_attr(it));
        return MSGSZ;
    case 'g': case 'X':
        m->type = ctl_proto_type_get_all_attr_req;
        return MSGSZ;
    case 'z': return 0;
    case 'o': return 1;
    case 'm':
        m->type = ctl_proto_type_get_attr_req;
        strcpy(m->get_attr_req.attr_name, "xcm.type");
        return MSGSZ - 1;
    case 'p':
        m->type = ctl_proto_type_get_attr_req;
        strcpy(m->get_attr_req.attr_name, "xcm.type");
        buf[MSGSZ] = 0x55;
        return MSGSZ + 1;
    case 't':
        m->type = (enum ctl_proto_type)99;
        strcpy(m->get_attr_req.attr_name, "xcm.type");
        return MSGSZ;
    case 'n':
        memset(buf, 'A', MSGSZ);
        m->type = ctl_proto_type_get_attr_req;
        return MSGSZ;
    case 'N':
        m->type = ctl_proto_type_get_attr_req;
        memset(m->get_attr_req.attr_name, 'A', XCM_ATTR_NAME_MAX);
        return MSGSZ;
    default:
        mc_fail("internal/unknown-item", "unknown session item '%c'", it);
    }
}

/* -- comparing a reply with the in-process answers of the window [lo, hi) -- */
static int attr_equal(const struct ctl_proto_attr *a, const struct rec_attr *r)
{
    return (int)a->value_type == r->type && a->value_len == r->len && memcmp(a->any_value, r->val, r->len) == 0;
}

/* returns the number of complaints; reports them only when report != 0 */
static int check_get_all_against(const struct ctl_proto_get_all_attr_cfm *cfm, const struct rec *r, int report, const char *who)
{
    int bad = 0;
    unsigned char seen[400] = { 0 };
    for (size_t i = 0; i < cfm->attrs_len; i++) {
        const struct ctl_proto_attr *a = &cfm->attrs[i];
        if (!memchr(a->name, 0, sizeof a->name)) {
            bad++;
            if (report)
                V("C14/get-all/name-not-terminated", "%s: entry %zu of the get-all reply has no NUL in its name field", who, i);
            continue;
        }
        if (a->value_len > CTL_ATTR_VALUE_MAX) {
            bad++;
            if (report)
                V("C14/get-all/value-length-above-field-size",
                  "%s: get-all reply entry %zu (%s) carries value_len=%zu, the value field holds %d bytes - the value was copied "
                  "unchecked over the fields behind it", who, i, a->name, a->value_len, CTL_ATTR_VALUE_MAX);
            for (int k = 0; k < r->nattrs; k++)
                if (!strcmp(r->attrs[k].name, a->name))
                    seen[k] = 1;
            continue;
        }
        int k;
        for (k = 0; k < r->nattrs; k++)
            if (!strcmp(r->attrs[k].name, a->name))
                break;
        if (k == r->nattrs) {
            bad++;
            if (report)
                V("C14/get-all/attribute-unknown-in-process", "%s: get-all reply entry %zu is named \"%.40s\", xcm_attr_get_all reports "
                  "no such attribute", who, i, a->name);
            continue;
        }
        if (seen[k]) {
            bad++;
            if (report)
                V("C14/get-all/duplicate-attribute", "%s: get-all reply lists %s twice", who, a->name);
        }
        seen[k] = 1;
        if (!strcmp(a->name, "tls.key") && a->value_len > 0) {
            bad++;
            if (report)
                V("C14/tls-key-disclosed/get-all", "%s: the get-all reply contains tls.key (%zu bytes)", who, a->value_len);
            continue;
        }
        if (!attr_equal(a, &r->attrs[k])) {
            bad++;
            if (report)
                V("C14/get-all/value-differs-from-in-process", "%s: get-all reply has %s type=%d len=%zu, xcm_attr_get_all reported "
                  "type=%d len=%zu at that moment%s", who, a->name, a->value_type, a->value_len, r->attrs[k].type, r->attrs[k].len,
                  (int)a->value_type == r->attrs[k].type && a->value_len == r->attrs[k].len ? " (bytes differ)" : "");
        }
    }
    /* omissions: only the unrepresentable, the sensitive, and what a full table cannot hold */
    int full = cfm->attrs_len >= CTL_PROTO_MAX_ATTRS - 1;
    for (int k = 0; k < r->nattrs; k++) {
        if (seen[k] || r->attrs[k].len > CTL_ATTR_VALUE_MAX || !strcmp(r->attrs[k].name, "tls.key") || full)
            continue;
        bad++;
        if (report)
            V("C14/get-all/attribute-omitted", "%s: get-all reply (%zu entries) lacks %s (%zu bytes) which xcm_attr_get_all reports",
              who, cfm->attrs_len, r->attrs[k].name, r->attrs[k].len);
    }
    return bad;
}

static void check_reply(struct client *c, const struct outst *o, const unsigned char *buf, int len)
{
    const struct ctl_proto_msg *m = (const struct ctl_proto_msg *)buf;
    char sig[160];
    int hi = g_nrec;
    mc_count(3, 1);
    /* the sensitive value, anywhere in the datagram (stale parts of the reused reply buffer included) */
    long off = key_scan(buf, len);
    if (off >= 0) {
        snprintf(sig, sizeof sig, "C14/tls-key-disclosed/reply-to=%s", item_is_getall(o->item) ? "get-all" : "get-attr");
        V(sig, "%s: the reply to item '%c' contains %d consecutive characters of the private key's base64 body at offset %ld",
          c->name, o->item, KEYWIN, off);
    }
    if (len != MSGSZ) {
        V("C14/reply-size", "%s: reply of %d bytes, the protocol message has %d", c->name, len, MSGSZ);
        return;
    }
    if (!item_is_wellformed(o->item) && o->item != 'p')
        return;                     /* no demand on what is said to a malformed request */
    if (g_rec_overflow)
        return;
    if (item_is_getall(o->item)) {
        if (m->type != ctl_proto_type_get_all_attr_cfm) {
            V("C14/get-all/reply-type-not-get-all-cfm", "%s: the reply to a get-all request carries message type %d (expected %d = "
              "get_all_attr_cfm): whatever the session's reply buffer held before", c->name, m->type, ctl_proto_type_get_all_attr_cfm);
            /* go on: the payload is still checked */
        }
        const struct ctl_proto_get_all_attr_cfm *cfm = &m->get_all_attr_cfm;
        if (cfm->attrs_len > CTL_PROTO_MAX_ATTRS) {
            V("C14/get-all/attrs-len-above-table-size", "%s: get-all reply with attrs_len=%zu", c->name, cfm->attrs_len);
            return;
        }
        const struct rec *first = NULL;
        for (int i = o->lo; i < hi; i++) {
            const struct rec *r = &g_rec[i];
            if (r->kind != 1 || r->sock != g_tsock)
                continue;
            if (!first)
                first = r;
            if (check_get_all_against(cfm, r, 0, c->name) == 0)
                return;
        }
        if (first)
            check_get_all_against(cfm, first, 1, c->name);
        else
            V("C14/get-all/no-in-process-query", "%s: a get-all reply arrived but the library never called xcm_attr_get_all on the "
              "target socket for it", c->name);
        return;
    }
    /* get-attr */
    if (m->type != ctl_proto_type_get_attr_cfm && m->type != ctl_proto_type_get_attr_rej) {
        V("C14/get-attr/reply-type", "%s: the reply to get-attr(%s) carries message type %d", c->name, o->name, m->type);
        return;
    }
    const struct ctl_proto_attr *a = &m->get_attr_cfm.attr;
    if (!strcmp(o->name, "tls.key")) {
        if (m->type == ctl_proto_type_get_attr_cfm && a->value_len > 0)
            V("C14/get-attr/tls.key-confirmed-with-a-value", "%s: get-attr(tls.key) was confirmed with a %zu-byte value (a query for the sensitive attribute may only be rejected)", c->name, a->value_len);
        return;
    }
    if (m->type == ctl_proto_type_get_attr_cfm && a->value_len > CTL_ATTR_VALUE_MAX) {
        V("C14/get-attr/value-length-above-field-size", "%s: get-attr(%s) confirmed with value_len=%zu", c->name, o->name, a->value_len);
        return;
    }
    const struct rec *cand = NULL;
    for (int i = o->lo; i < hi; i++) {
        const struct rec *r = &g_rec[i];
        if (r->kind != 0 || r->sock != g_tsock || r->name_open || strcmp(r->name, o->name))
            continue;
        cand = r;
        if (r->rc < 0) {
            if (m->type == ctl_proto_type_get_attr_rej && m->get_attr_rej.rej_errno == r->err)
                return;
        } else if (m->type == ctl_proto_type_get_attr_cfm && (int)a->value_type == r->type && a->value_len == (size_t)r->rc &&
                   memcmp(a->any_value, r->val, r->rc) == 0)
            return;
    }
    int ip_rc, ip_err = 0;
    enum xcm_attr_type ip_type = 0;
    unsigned char ip_val[CTL_ATTR_VALUE_MAX];
    if (cand) {
        ip_rc = cand->rc;
        ip_err = cand->err;
        ip_type = cand->type;
    } else {
        /* the library answered without asking xcm_attr_get: compare with what it says now */
        if (g_tclosed || !g_tsock)
            return;
        g_own++;
        ip_rc = __real_xcm_attr_get(g_tsock, o->name, &ip_type, ip_val, sizeof ip_val);
        ip_err = ip_rc < 0 ? errno : 0;
        g_own--;
        if (ip_rc < 0 && m->type == ctl_proto_type_get_attr_rej && m->get_attr_rej.rej_errno == ip_err)
            return;
        if (ip_rc >= 0 && m->type == ctl_proto_type_get_attr_cfm && a->value_type == ip_type && a->value_len == (size_t)ip_rc &&
            memcmp(a->any_value, ip_val, ip_rc) == 0)
            return;
    }
    snprintf(sig, sizeof sig, "C14/get-attr/reply-differs-from-in-process/%s", m->type == ctl_proto_type_get_attr_rej ? "rej" : "cfm");
    if (m->type == ctl_proto_type_get_attr_rej)
        V(sig, "%s: get-attr(%s) rejected with %s, xcm_attr_get in-process answered %d/%s", c->name, o->name,
          errname(m->get_attr_rej.rej_errno), ip_rc, errname(ip_err));
    else
        V(sig, "%s: get-attr(%s) confirmed type=%d len=%zu, xcm_attr_get in-process answered rc=%d/%s type=%d%s", c->name, o->name,
          a->value_type, a->value_len, ip_rc, errname(ip_err), ip_type, cand ? "" : " (asked now: the library had not asked)");
}

/* -- raw client -- */
static int cl_reply_ready(void *arg)
{
    struct client *c = arg;
    if (fd_readable_mask(c->fd) & (POLLIN | POLLHUP | POLLERR))
        return 1;
    if (g_tclosed)
        return 1;
    /* nothing is owed for a malformed request (or behind one): look once when the owner has been round at least
       once and the library has nothing left to do on its control descriptors */
    if ((c->poisoned || !item_is_wellformed((char)c->waiting)) && g_pumps > c->pumps_at_send && g_tsock &&
        !(fd_readable_mask(xcm_fd(g_tsock)) & POLLIN))
        return 1;
    return 0;
}

static void choose_session(struct client *c)
{
    if (!c->free_len)
        return;
    const char *alpha = c->xcmc ? "abkulg" : g_alpha;
    int na = (int)strlen(alpha);
    char lb[32];
    snprintf(lb, sizeof lb, "session-len:%s", c->name);
    c->nitems = mc_choose_mask(c->free_len + 1, MC_IO, lb, 0);
    for (int i = 0; i < c->nitems; i++) {
        snprintf(lb, sizeof lb, "item%d:%s", i, c->name);
        c->items[i] = alpha[mc_choose_mask(na, MC_IO, lb, 0)];
    }
    c->items[c->nitems] = 0;
}

static void raw_read_reply(struct client *c)
{
    /* pops the oldest outstanding request */
    if (c->qh == c->qt)
        return;
    struct outst *o = &c->q[c->qh % 8];
    c->waiting = o->item;
    c->waiting_owed = item_is_wellformed(o->item) && o->healthy;
    mc_wait_cond(cl_reply_ready, c, "reply-wait");
    c->waiting = 0;
    int rc = (int)recv(c->fd, c->buf, MSGSZ + 8, MSG_DONTWAIT);
    int err = rc < 0 ? errno : 0;
    mc_observe("%s reply to '%c' -> %d %s type=%d", c->name, o->item, rc, rc < 0 ? errname(err) : "",
               rc >= 4 ? *(int *)c->buf : -1);
    c->qh++;
    if (rc > 0) {
        check_reply(c, o, c->buf, rc);
        return;
    }
    if (rc < 0 && err == EAGAIN)
        return;                   /* only reachable for requests that are owed nothing */
    /* EOF or reset: the session is gone */
    if (item_is_wellformed(o->item) && o->healthy && !g_tclosed) {
        char sig[96];
        snprintf(sig, sizeof sig, "C14/no-reply/session-dropped/%s", item_is_getall(o->item) ? "get-all" : "get-attr");
        V(sig, "%s: the session was closed by the library (recv -> %d %s) instead of answering the well-formed request '%c'",
          c->name, rc, errname(err), o->item);
    }
    c->poisoned = 2;
}

static void raw_client(struct client *c)
{
    choose_session(c);
    mc_observe("%s session \"%s\"", c->name, c->items);
    c->buf = malloc(MSGSZ + 16);
    if (g_probe16 && c->nitems == 0)
        mc_wait_cond(earlier_clients_settled, c, "wait-for-full-table");
    if (g_tclosed)
        goto out;
    mc_sched_point("c-connect");
    c->fd = socket(AF_UNIX, SOCK_SEQPACKET | SOCK_NONBLOCK, 0);
    env_set_raw(c->fd);
    struct sockaddr_un sa = { .sun_family = AF_UNIX };
    snprintf(sa.sun_path, sizeof sa.sun_path, "%s", g_tpath);
    if (connect(c->fd, (struct sockaddr *)&sa, sizeof sa) < 0) {
        int e = errno;
        mc_observe("%s connect -> %s", c->name, errname(e));
        if (!g_tclosed)
            V("C14/control-socket-refuses", "%s: connect to the control file of a live socket failed with %s", c->name, errname(e));
        close(c->fd);
        goto out;
    }
    mc_observe("%s connected", c->name);
    for (int i = 0; i < c->nitems; i++) {
        char it = c->items[i];
        int n = build_request(it, c->buf);
        mc_sched_point("c-send");
        c->step++;
        struct outst *o = &c->q[c->qt % 8];
        o->item = it;
        o->lo = g_nrec;
        o->healthy = c->poisoned == 0;
        snprintf(o->name, sizeof o->name, "%s", item_attr(it));
        c->pumps_at_send = g_pumps;
        g_last_item = it;
        int rc = (int)send(c->fd, c->buf, n, MSG_NOSIGNAL | MSG_DONTWAIT);
        mc_observe("%s item '%c' send(%d) -> %d %s", c->name, it, n, rc, rc < 0 ? errname(errno) : "");
        mc_count(4, 1);
        if (rc < 0) {
            /* the library has dropped the session (EPIPE) - legitimate only behind a malformed datagram or a close */
            if (!c->poisoned && !g_tclosed)
                V("C14/no-reply/session-dropped/send-refused", "%s: send of item '%c' failed with %s on a healthy session",
                  c->name, it, errname(errno));
            break;
        }
        c->qt++;
        if (!item_is_wellformed(it))
            c->poisoned = c->poisoned ? c->poisoned : 1;
        if (item_reads(it)) {
            raw_read_reply(c);
            if (c->poisoned == 2)
                break;
        }
    }
    if (c->poisoned != 2)
        park(c);
    mc_sched_point("c-close");
    close(c->fd);
    mc_observe("%s closed", c->name);
out:
    free(c->buf);
}

/* -- client library (xcmc.c) -- */
static struct client *g_xc_cur[MAXCL];

ssize_t h_ctl_xcmc_recv(int fd, void *buf, size_t len, int flags)
{
    if (mc_in_task()) {
        struct client *c = NULL;
        for (int i = 0; i < MAXCL; i++)
            if (g_xc_cur[i] && g_xc_cur[i]->fd == fd)
                c = g_xc_cur[i];
        if (c) {
            c->pumps_at_send = g_pumps;
            mc_wait_cond(cl_reply_ready, c, "xcmc-reply-wait");
        }
    }
    return recv(fd, buf, len, flags | MSG_DONTWAIT);
}

struct xc_all {
    struct client *c;
    struct ctl_proto_get_all_attr_cfm *cfm;
    int overflow;
};

static void xc_all_cb(const char *name, enum xcm_attr_type type, void *value, size_t len, void *data)
{
    struct xc_all *x = data;
    if (x->cfm->attrs_len >= CTL_PROTO_MAX_ATTRS) {
        x->overflow = 1;
        return;
    }
    struct ctl_proto_attr *a = &x->cfm->attrs[x->cfm->attrs_len++];
    memset(a, 0, sizeof *a);
    memcpy(a->name, name, strnlen(name, sizeof a->name));
    a->value_type = type;
    a->value_len = len;
    memcpy(a->any_value, value, len > sizeof a->any_value ? sizeof a->any_value : len);
    long off = key_scan(value, len > 4096 ? 4096 : len);
    if (off >= 0)
        V("C14/tls-key-disclosed/xcmc-get-all", "%s: xcmc_attr_get_all handed out %s containing %d consecutive characters of the private "
          "key", x->c->name, name, KEYWIN);
}

/* the session descriptor is the only thing struct xcmc_session holds */
static int xc_fd(struct xcmc_session *s) { return *(int *)s; }

static void xcmc_client(struct client *c)
{
    choose_session(c);
    mc_observe("%s xcmc session \"%s\"", c->name, c->items);
    if (g_tclosed)
        return;
    mc_sched_point("c-connect");
    struct xcmc_session *s = xcmc_open(getpid(), g_tref);
    if (!s) {
        int e = errno;
        mc_observe("%s xcmc_open -> %s", c->name, errname(e));
        if (!g_tclosed)
            V("C14/control-socket-refuses", "%s: xcmc_open on a live socket failed with %s", c->name, errname(e));
        return;
    }
    c->fd = xc_fd(s);
    g_xc_cur[c->idx] = c;
    struct ctl_proto_msg *m = calloc(1, sizeof *m);
    for (int i = 0; i < c->nitems; i++) {
        char it = c->items[i];
        mc_sched_point("c-send");
        c->step++;
        struct outst o = { .item = it, .lo = g_nrec, .healthy = 1 };
        snprintf(o.name, sizeof o.name, "%s", item_attr(it));
        c->waiting = it;
        c->waiting_owed = 1;
        g_last_item = it;
        mc_count(4, 1);
        if (item_is_getall(it)) {
            struct xc_all x = { .c = c, .cfm = &m->get_all_attr_cfm };
            memset(m, 0, sizeof *m);
            int rc = xcmc_attr_get_all(s, xc_all_cb, &x);
            int err = rc < 0 ? errno : 0;
            mc_observe("%s xcmc_attr_get_all -> %d %s (%zu attributes)", c->name, rc, rc < 0 ? errname(err) : "", m->get_all_attr_cfm.attrs_len);
            if (rc < 0) {
                if (g_tclosed)
                    break;
                char sig[96];
                snprintf(sig, sizeof sig, "C14/xcmc/get-all-fails/%s", errname(err));
                V(sig, "%s: xcmc_attr_get_all failed with %s as request #%d of its session (previous item '%c') although the socket is "
                  "alive and the request is well-formed", c->name, errname(err), i + 1, i ? c->items[i - 1] : '-');
                if (err != EPROTO)
                    break;
                continue;
            }
            m->type = ctl_proto_type_get_all_attr_cfm;
            check_reply(c, &o, (unsigned char *)m, MSGSZ);
        } else {
            enum xcm_attr_type t = 0;
            static unsigned char val[4096];
            memset(m, 0, sizeof *m);
            int rc = xcmc_attr_get(s, o.name, &t, val, sizeof val);
            int err = rc < 0 ? errno : 0;
            mc_observe("%s xcmc_attr_get(%s) -> %d %s", c->name, o.name, rc, rc < 0 ? errname(err) : "");
            if (rc >= 0) {
                long off = key_scan(val, rc);
                if (off >= 0)
                    V("C14/tls-key-disclosed/xcmc-get-attr", "%s: xcmc_attr_get(%s) returned the private key", c->name, o.name);
                m->type = ctl_proto_type_get_attr_cfm;
                m->get_attr_cfm.attr.value_type = t;
                m->get_attr_cfm.attr.value_len = rc;
                memcpy(m->get_attr_cfm.attr.any_value, val, rc > CTL_ATTR_VALUE_MAX ? CTL_ATTR_VALUE_MAX : rc);
            } else {
                if (g_tclosed)
                    break;
                m->type = ctl_proto_type_get_attr_rej;
                m->get_attr_rej.rej_errno = err;
            }
            check_reply(c, &o, (unsigned char *)m, MSGSZ);
        }
    }
    c->waiting = 0;
    free(m);
    park(c);
    mc_sched_point("c-close");
    g_xc_cur[c->idx] = NULL;
    xcmc_close(s);
    mc_observe("%s closed", c->name);
}

static void task_client(void *arg)
{
    struct client *c = arg;
    if (c->xcmc)
        xcmc_client(c);
    else
        raw_client(c);
    c->done = 1;
    g_clients_done++;
    if (!c->parked)
        g_settled++;
}

/* ---- scenario -------------------------------------------------------------------------------------------- */
static uint64_t state_digest(void)
{
    uint64_t h = 23;
    for (struct side *x = &A; x; x = (x == &A ? &B : NULL)) {
        h = mc_hash_mix(h, x->pc * 64 + x->n_acc * 8 + x->n_rcv);
        h = mc_hash_mix(h, x->closed * 2 + (x->s != NULL));
    }
    for (int i = 0; i < g_ncl; i++) {
        struct client *c = &g_cl[i];
        h = mc_hash_mix(h, c->step * 16 + c->done * 8 + c->poisoned);
        h = mc_hash_bytes(h, c->items, sizeof c->items);
        h = mc_hash_mix(h, (c->qt - c->qh));
    }
    h = mc_hash_mix(h, g_nrec * 1000 + g_pumps);
    h = mc_hash_mix(h, g_stage);
    return h;
}

static void rm_dir_contents(const char *dir)
{
    DIR *d = opendir(dir);
    if (!d)
        return;
    struct dirent *de;
    while ((de = readdir(d)) != NULL) {
        if (!strcmp(de->d_name, ".") || !strcmp(de->d_name, ".."))
            continue;
        char p[400];
        snprintf(p, sizeof p, "%s/%s", dir, de->d_name);
        unlink(p);
    }
    closedir(d);
}

static void mk_addr(void)
{
    int id = getpid();
    if (!strcmp(g_tp, "ux")) {
        if (g_big) {
            /* the longest name an abstract UNIX socket address takes */
            char nm[H_UX_NAME_MAX + 1];
            memset(nm, 'u', sizeof nm);
            int n = snprintf(nm, sizeof nm, "c14-%d-", id);
            nm[n] = 'u';
            nm[H_UX_NAME_MAX] = 0;
            snprintf(g_addr, sizeof g_addr, "ux:%s", nm);
        } else
            snprintf(g_addr, sizeof g_addr, "ux:c14-%d", id);
    } else if (!strcmp(g_tp, "uxf")) {
        /* the socket file lives next to (not in) the control directory */
        char p[H_UX_NAME_MAX + 1];
        memset(p, 0, sizeof p);
        int n = snprintf(p, sizeof p, "%.*s-uxf", (int)strlen(g_dir) - 4, g_dir);
        if (g_big)
            memset(p + n, 'f', H_UX_NAME_MAX - n);
        snprintf(g_addr, sizeof g_addr, "uxf:%s", p);
        unlink(g_addr + 4);
    } else
        snprintf(g_addr, sizeof g_addr, "%s:127.0.0.1:%d", g_tp, 20000 + id % 20000);
}

static void parse_client(struct client *c, const char *spec)
{
    c->xcmc = spec[0] == 'x';
    if (spec[1] == '*')
        c->free_len = atoi(spec + 2);
    else if (spec[1] == ':') {
        snprintf(c->items, sizeof c->items, "%s", spec + 2);
        c->nitems = (int)strlen(c->items);
    } else
        mc_fail("internal/client-spec", "bad client spec %s", spec);
    if (c->free_len > 3 || c->nitems > 6)
        mc_fail("internal/client-spec", "session too long in %s", spec);
}

static void scenario(const char *params)
{
    char b[64];
    param_get(params, "tp", g_tp, sizeof g_tp, "tcp");
    param_get(params, "target", g_target, sizeof g_target, "a");
    param_get(params, "scert", g_scert, sizeof g_scert, "");
    param_get(params, "ccert", g_ccert, sizeof g_ccert, "");
    param_get(params, "alpha", g_alpha, sizeof g_alpha, "abkulgzompnNtxX");
    param_get(params, "svc", g_svc, sizeof g_svc, "all");
    g_big = (int)param_int(params, "big", 0);
    g_names = (int)param_int(params, "names", 0);
    g_rel = (int)param_int(params, "rel", 0);
    g_pumpn = (int)param_int(params, "pumpn", 257);
    g_probe16 = (int)param_int(params, "probe16", 0);
    g_idle = (int)param_int(params, "idle", 1);
    if (strlen(g_alpha) > 15)
        mc_fail("internal/alphabet", "at most 15 items per free choice");
    for (int i = 0; i < MAXCL; i++) {
        char key[4] = { 'c', (char)('0' + i), 0 };
        param_get(params, key, b, sizeof b, "");
        if (!b[0])
            break;
        struct client *c = &g_cl[g_ncl];
        c->idx = g_ncl;
        snprintf(c->name, sizeof c->name, "C%d", g_ncl);
        parse_client(c, b);
        g_ncl++;
    }
    /* attribute names the items 'b' and 'l' ask for */
    const char *dl = !strcmp(g_tp, "tls") ? (g_big ? "tls.cert" : "tls.cert_file") : "xcm.local_addr";
    param_get(params, "long", g_long_attr, sizeof g_long_attr, dl);
    param_get(params, "list", g_list_attr, sizeof g_list_attr, "tls.peer.cert.san.dns[0]");

    A.name = "A"; A.idx = 0; A.inflight = -1;
    B.name = "B"; B.idx = 1; B.inflight = -1;
    g_buf[0] = malloc(MAXMSG + 1);
    g_buf[1] = malloc(MAXMSG + 1);

    /* per-execution control directory */
    const char *root = getenv("C14_RUN");
    if (!root || !root[0])
        root = "/verif/build/run/c14-replay";
    mkdir("/verif/build/run", 0755);
    mkdir(root, 0755);
    snprintf(g_dir, sizeof g_dir, "%s/%d-ctl", root, getpid());
    mkdir(g_dir, 0755);
    rm_dir_contents(g_dir);
    setenv("XCM_CTL", g_dir, 1);

    if (!strcmp(g_tp, "tls")) {
        if (!g_scert[0] || !g_ccert[0])
            mc_fail("internal/params", "tls needs scert= and ccert=");
        /* the default credential location is the server side's directory (files: cert.pem key.pem tc.pem) */
        setenv("XCM_TLS_CERT", g_scert, 1);
        const char *dirs[2] = { g_scert, strcmp(g_scert, g_ccert) ? g_ccert : NULL };
        for (int i = 0; i < 2 && dirs[i]; i++) {
            char *k = slurp(dirs[i], "key.pem", NULL);
            if (!k)
                mc_fail("internal/credentials", "cannot read %s/key.pem", dirs[i]);
            key_windows_add(k, slurp(dirs[i], "cert.pem", NULL), slurp(dirs[i], "tc.pem", NULL));
        }
        if (g_nkeywin < 40)
            mc_fail("internal/credentials", "only %d secret windows in the private keys", g_nkeywin);
    }

    struct env_cfg cfg = { .io_menu = (unsigned)param_int(params, "menu", ENV_IO_EAGAIN | ENV_IO_SEQPKT | ENV_IO_ACCEPT),
                           /* mon=1 (C05): control-interface processing runs inside the application's own non-blocking
                              calls, so the sleep monitor applies to the descriptors of the control interface too */
                           .sleep_monitor = (int)param_int(params, "mon", 0), .only_task = -1 };
    env_init(&cfg);
    env_register_events();
    det_rand_install(1);
    mc_set_state_fn(state_digest);
    mk_addr();

    struct xcm_attr_map *at = mk_attrs(1, 1);
    g_server = xcm_server_a(g_addr, at);
    xcm_attr_map_destroy(at);
    if (!g_server)
        mc_fail("internal/server-create", "xcm_server_a(%s): %s", g_addr, errname(errno));
    learn_ctl("the server socket", g_srv_path, sizeof g_srv_path, !strcmp(g_target, "srv") ? &g_tref : NULL);
    if (!strcmp(g_target, "srv")) {
        snprintf(g_tpath, sizeof g_tpath, "%s", g_srv_path);
        g_tsock = g_server;
    }

    mc_task_create("A", task_a, NULL);       /* A starts B (task index 1) before it connects */
    enum mc_end end = mc_run((int)param_int(params, "horizon", 1500));
    mc_observe("end=%d", end);

    if (end == MC_END_HORIZON)
        V("C14/livelock", "no termination within %d scheduler steps (A pc=%d, B pc=%d, %d of %d control sessions finished)",
          mc_steps(), A.pc, B.pc, g_clients_done, g_ncl);
    else if (end == MC_END_QUIESCENT) {
        /* nobody can run: who is waiting for what? */
        int told = 0;
        for (int i = 0; i < g_ncl; i++) {
            struct client *c = &g_cl[i];
            if (c->done || !c->waiting || !c->waiting_owed)
                continue;
            char sig[96];
            snprintf(sig, sizeof sig, "C14/no-reply/never-answered/%s%s", c->xcmc ? "xcmc-" : "", item_is_getall((char)c->waiting) ? "get-all" : "get-attr");
            V(sig, "%s waits for the reply to its well-formed request '%c'; the application's event loop is idle (its xcm_fd is not "
              "readable) and nothing else can happen", c->name, c->waiting);
            told = 1;
        }
        for (struct side *x = &A; x; x = (x == &A ? &B : NULL))
            if (!mc_task_done(x->idx) && x->pc < 5 && !x->failed) {
                char sig[96];
                snprintf(sig, sizeof sig, "C14/data-path/stuck/tp=%s", g_tp);
                V(sig, "%s is stuck in step %d of its script with nothing left to wake it", x->name, x->pc);
                told = 1;
            }
        if (!told)
            V("C14/quiescent-unfinished", "the system is quiescent with unfinished tasks (A pc=%d, B pc=%d, sessions %d/%d)",
              A.pc, B.pc, g_clients_done, g_ncl);
    } else {
        /* everything ran to its end: delivery complete, control directory empty */
        for (struct side *tx = &A; tx; tx = (tx == &A ? &B : NULL)) {
            struct side *rx = peer_of(tx);
            if (!tx->failed && !rx->failed && rx->n_rcv != tx->n_acc) {
                char sig[96];
                snprintf(sig, sizeof sig, "C14/data-path/messages-missing/tp=%s", g_tp);
                V(sig, "%s had %d sends accepted, %s obtained %d", tx->name, tx->n_acc, rx->name, rx->n_rcv);
            }
        }
        char left[4][64];
        int n = dir_list(left, 4);
        if (n > 0 && A.closed && B.closed && g_srv_closed)
            V("C14/control-file-left-after-close", "all sockets are closed, %d file(s) remain in the control directory (%s ...)", n, left[0]);
    }
    mc_count(0, g_nrec);
    mc_outcome("end=%d A:%d/%d/%d B:%d/%d/%d cl=%d rec=%d pumps=%d s=%s|%s|%s", end, A.pc, A.n_acc, A.n_rcv, B.pc, B.n_acc, B.n_rcv,
               g_clients_done, g_nrec, g_pumps, g_cl[0].items, g_cl[1].items, g_cl[2].items);
    /* clean up */
    if (g_server)
        xcm_close(g_server);
    if (A.s)
        xcm_close(A.s);
    if (B.s)
        xcm_close(B.s);
    if (!strcmp(g_tp, "uxf"))
        unlink(g_addr + 4);
    rm_dir_contents(g_dir);
    rmdir(g_dir);
}

int main(int argc, char **argv)
{
    return mc_main(argc, argv, scenario, NULL);
}
