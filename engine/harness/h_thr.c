/* h_thr - C15: threads using different sockets do not interfere.
 *
 * Two or three application threads, each with its OWN sockets, run short scripts of XCM calls.  The
 * same thread bodies are built twice:
 *
 *  (1) explorer build (plain/asan): the threads are mcx tasks (real pthreads under the cooperative
 *      hand-off scheduler).  Scheduling points: before every pthread_mutex_lock made inside the link
 *      (util.c ut_mutex_lock = active_fd_lock, next_id_lock, ctx_store cache.lock; and the harness'
 *      own hand-over mutex) and at the entry of every shim system call issued inside an XCM API call
 *      (env_syscall_hook).  Mutex ownership is modelled: a task that wants a lock held by another task
 *      is DISABLED until the owner releases it (mc_wait_cond).  The explorer enumerates every schedule
 *      with <= D preemptions (switching away from a runnable task = 1 deviation; switches forced by a
 *      finished or lock-blocked task are free).  No environment deviations are offered (io_menu = 0):
 *      the schedule is the only source of nondeterminism.
 *
 *      Oracles (ledgers kept at the interposition seams, all inside this file):
 *        pool   - wrapped active_fd_get/active_fd_put + close/epoll_ctl entry hooks: a descriptor handed
 *                 out by the pool is a live, readable eventfd until its last user has put it; it is
 *                 never closed while a user holds it or while it is registered in an epoll instance;
 *                 at the end no pool descriptor is left
 *        ctx    - wrapped ctx_store_get_ctx/ctx_store_put, SSL_CTX_new/SSL_CTX_free, SSL_new/SSL_free: the
 *                 cache only hands out live contexts; no SSL_CTX_free while a socket holds the context
 *                 or an SSL made from it is alive; at the end every context and SSL is freed
 *        ident  - every TLS connection presents, on both sides, the certificate its thread designated
 *        ids    - wrapped xcm_tp_socket_create: socket ids are pairwise distinct
 *        chan   - every message a thread sends on its connection arrives exactly (length + pattern)
 *        end    - all threads finish (quiescence with unfinished threads = deadlock), every descriptor
 *                 is closed again (fd count back to the baseline), no stray close, no crash
 *
 *  (2) free-running build (-DH_THR_TSAN, clang -fsanitize=thread, no shim, no scheduler, real ux and
 *      loopback sockets): the same bodies as plain pthreads started behind a barrier, N repetitions.
 *      Any ThreadSanitizer report is a violation.  This pass complements (1) - a cooperative
 *      scheduler's hand-offs are happens-before edges, so (1) cannot see a plain data race - and is
 *      labelled as such in the evidence; the deciding step is the schedule enumeration.
 *
 *      Both free-running builds (this TSan one and a plain gcc one, h_thr_free) keep one ledger: the wrapped
 *      xcm_tp_socket_create records every socket id handed out; ids are "unique on a per-process basis"
 *      (xcm_tp.c), so any value seen twice in a run is C15/socket-id/duplicate/free-running.  "--stress N,K,R"
 *      aims at the allocator: N threads released by a barrier each round create and close K ux servers, R
 *      rounds.  (A lost update between two atomic accesses with no lock or system call in between is invisible
 *      to the enumeration - no scheduling point - and to ThreadSanitizer - no race; this sampling stress is
 *      the complement for it.)
 *
 * params:  t0=<tp>[/<cred>]:<script>,t1=...,[t2=...],pts=all|dep,pki=<dir of the certificate sets>
 *   tp: ux | tcp | tls        cred: a | b  (pki/good_a, pki/good_b)
 *   script letters:  S server   C connect (non-blocking)   A accept + drive both ends until established
 *                    M send one message client->server and receive it    N the same server->client
 *                    G attribute reads (transport, local address; TLS: peer certificate identity)
 *                    c close client end   a close accepted end   s close server
 *                    H hand the client end over (mutex-protected slot)   T take it (waits for it)
 *                    m send one message on the client end   r receive one message on the accepted end
 *                    D raise the "done" flag   W wait for it     E / V the same with a second flag
 *                    F a TLS failure on a socket of its own: connect to a raw TCP peer that answers the ClientHello
 *                      with junk (handshake must fail)      B the same by a certificate the own server refuses
 *                    i / j  xcm_receive on the idle client / accepted end: must be -1/EAGAIN, connection stays usable
 *                    n send one message on the accepted end   q receive it on the client end (own or taken over)
 *   tp btls = the byte-stream TLS transport (messages are byte ranges)
 *   In every mode the OpenSSL entry points that build or read process-global state on the initialisation and
 *   socket-creation paths (OPENSSL_init_ssl, BIO_get_new_index, BIO_meth_new, BIO_meth_set_*, BIO_new) are
 *   scheduling points too; SSL_set_bio under pts=all only.  No TLS socket exists before the threads start, so in
 *   every tls/tls scenario both threads create the process's FIRST TLS sockets.
 *   pts=all: scheduling point at every shim system call inside the library
 *   pts=dep: only at calls that allocate/release descriptor numbers or touch objects another thread
 *            can reach (socket, accept, eventfd, epoll_create1, timerfd_create, fopen, close, epoll_ctl,
 *            bind, listen, connect); send/recv/getsockopt/... on a thread's own connection are
 *            independent of every action of the other threads (partial-order reduction by independence)
 */
#define _GNU_SOURCE
#include <errno.h>
#include <fcntl.h>
#include <malloc.h>
#include <poll.h>
#include <pthread.h>
#include <sched.h>
#include <stdarg.h>
#include <stdbool.h>
#include <stdint.h>
#include <stdio.h>
#include <stdlib.h>
#include <string.h>
#include <arpa/inet.h>
#include <netinet/in.h>
#include <sys/socket.h>
#include <sys/syscall.h>
#include <unistd.h>

#include <xcm.h>
#include <xcm_attr.h>
#include <xcm_attr_map.h>

#ifndef H_THR_TSAN
#include "hcommon.h"
#include <openssl/ssl.h>
#include <sys/epoll.h>
#include "active_fd.h"
#include "ctx_store.h"
#include "xcm_tp.h"
#endif

#define MAXT 3

struct thr {
    int id;
    char tp[8];
    char cred;                 /* 'a' | 'b' | 0 */
    char script[40];
    char addr[160];
    struct xcm_socket *srv, *cli, *acc;
    int pc;                    /* index of the op in progress */
    int nsent, nrecv;          /* messages */
    int nrev, nq;              /* messages accepted end -> client end: sent (n), received (q) */
    int failed;
    int hooks;                 /* shim calls seen inside this thread's API calls */
};

static struct thr g_thr[MAXT];
static int g_nthr;
static char g_pki[256];
static int g_pts_all = 1;
static int g_rep;

/* hand-over slot */
static pthread_mutex_t g_slot_lock = PTHREAD_MUTEX_INITIALIZER;
static struct xcm_socket *g_slot;
static int g_slot_msgno;       /* message number the taker continues with */
static char g_slot_tp[8];
static char g_slot_cred;
static int g_done;
static int g_abort;            /* a thread gave up after a reported failure: partners must not wait for it */

/* ---------------------------------------------------------------------------------------------- */
#ifdef H_THR_TSAN
static pthread_cond_t g_slot_cv = PTHREAD_COND_INITIALIZER;
static int g_harness_failures;
#define CALL(name, expr) (expr)
#define OBS(...) do { } while (0)
#define RELAX() sched_yield()
#define MAXSPIN 2000000
static void fail_(const char *sig, const char *fmt, ...)
{
    char b[600];
    va_list ap;
    va_start(ap, fmt);
    vsnprintf(b, sizeof b, fmt, ap);
    va_end(ap);
    fprintf(stderr, "HARNESS-VIOLATION %s: %s\n", sig, b);
    __atomic_fetch_add(&g_harness_failures, 1, __ATOMIC_RELAXED);
}
static const char *errname(int e)
{
    static __thread char b[24];
    switch (e) {
    case 0: return "0";
    case EAGAIN: return "EAGAIN";
    case EPROTO: return "EPROTO";
    case EPIPE: return "EPIPE";
    case ECONNRESET: return "ECONNRESET";
    case ECONNREFUSED: return "ECONNREFUSED";
    case ETIMEDOUT: return "ETIMEDOUT";
    case EINVAL: return "EINVAL";
    default: break;
    }
    snprintf(b, sizeof b, "errno%d", e);
    return b;
}
static unsigned char pay_byte(int m, size_t j)
{
    return (unsigned char)(((unsigned)(m % 251) * 37u + (unsigned)(j % 251) * 101u + (unsigned)(j / 251) * 7u + 11u) % 251u) + 1;
}
static void pay_fill(unsigned char *buf, int m, size_t len)
{
    for (size_t j = 0; j < len; j++)
        buf[j] = pay_byte(m, j);
}
static long pay_diff(const unsigned char *buf, int m, size_t len)
{
    for (size_t j = 0; j < len; j++)
        if (buf[j] != pay_byte(m, j))
            return (long)j;
    return -1;
}
#else
#define CALL(name, expr) API(name, 1, expr)
#define OBS(...) mc_observe(__VA_ARGS__)
#define RELAX() do { } while (0)
#define MAXSPIN 400
#define fail_(sig, ...) mc_violation(sig, __VA_ARGS__)
#endif

static int is_tls(const char *tp) { return !strcmp(tp, "tls") || !strcmp(tp, "btls"); }
static int is_bs(const char *tp) { return tp[0] == 'b'; }      /* byte-stream service */

static const char *cred_dir(char cred, char *buf, size_t n)
{
    if (cred == 'u')
        snprintf(buf, n, "%s/peer_untrusted_root", g_pki);     /* chain to a root nobody here trusts */
    else
        snprintf(buf, n, "%s/good_%c", g_pki, cred);
    return buf;
}

static const char *cred_cn(char cred)
{
    return cred == 'a' ? "alpha.verif.test" : "bravo.verif.test";
}

static struct xcm_attr_map *sock_attrs_cred(struct thr *t, char cred)
{
    struct xcm_attr_map *m = xcm_attr_map_create();
    xcm_attr_map_add_bool(m, "xcm.blocking", false);
    if (is_bs(t->tp))
        xcm_attr_map_add_str(m, "xcm.service", "bytestream");
    if (is_tls(t->tp)) {
        char d[300], p[340];
        cred_dir(cred, d, sizeof d);
        snprintf(p, sizeof p, "%s/cert.pem", d);
        xcm_attr_map_add_str(m, "tls.cert_file", p);
        snprintf(p, sizeof p, "%s/key.pem", d);
        xcm_attr_map_add_str(m, "tls.key_file", p);
        snprintf(p, sizeof p, "%s/tc.pem", d);
        xcm_attr_map_add_str(m, "tls.tc_file", p);
    }
    return m;
}

static struct xcm_attr_map *sock_attrs(struct thr *t) { return sock_attrs_cred(t, t->cred); }

static void op_failed(struct thr *t, char op, const char *what)
{
    char sig[160];
    int e = errno;
    snprintf(sig, sizeof sig, "C15/unexpected-failure/op=%c/%s/%s/tp=%s", op, what, errname(e), t->tp);
    fail_(sig, "thread %d (%s, script %s): %s failed with %s at script position %d although no other thread "
               "uses this thread's sockets", t->id, t->tp, t->script, what, errname(e), t->pc);
    t->failed = 1;
}

/* ---- the operations ------------------------------------------------------------------------- */
static int op_server(struct thr *t)
{
    char a[160];
    if (!strcmp(t->tp, "ux"))
        snprintf(a, sizeof a, "ux:c15-%d-%d-%d", (int)getpid(), g_rep, t->id);
    else
        snprintf(a, sizeof a, "%s:127.0.0.1:0", t->tp);
    struct xcm_attr_map *m = sock_attrs(t);
    t->srv = CALL("xcm_server_a", xcm_server_a(a, m));
    xcm_attr_map_destroy(m);
    if (!t->srv) {
        op_failed(t, 'S', "xcm_server_a");
        return -1;
    }
    const char *la = CALL("xcm_local_addr", xcm_local_addr(t->srv));
    if (!la) {
        op_failed(t, 'S', "xcm_local_addr");
        return -1;
    }
    snprintf(t->addr, sizeof t->addr, "%s", la);
    OBS("t%d server ok", t->id);
    return 0;
}

static int op_connect(struct thr *t)
{
    struct xcm_attr_map *m = sock_attrs(t);
    t->cli = CALL("xcm_connect_a", xcm_connect_a(t->addr, m));
    xcm_attr_map_destroy(m);
    if (!t->cli) {
        op_failed(t, 'C', "xcm_connect_a");
        return -1;
    }
    OBS("t%d connect ok", t->id);
    return 0;
}

static int op_accept(struct thr *t)
{
    struct xcm_attr_map *m = xcm_attr_map_create();
    xcm_attr_map_add_bool(m, "xcm.blocking", false);
    int rounds = 0;
    for (;; rounds++) {
        if (rounds > MAXSPIN) {
            errno = ETIMEDOUT;
            op_failed(t, 'A', "establishing(no-progress)");
            break;
        }
        if (!t->acc) {
            t->acc = CALL("xcm_accept_a", xcm_accept_a(t->srv, m));
            if (!t->acc && errno != EAGAIN) {
                op_failed(t, 'A', "xcm_accept_a");
                break;
            }
        }
        int f1 = CALL("xcm_finish", xcm_finish(t->cli));
        if (f1 < 0 && errno != EAGAIN) {
            op_failed(t, 'A', "xcm_finish(client)");
            break;
        }
        int f2 = -1;
        if (t->acc) {
            f2 = CALL("xcm_finish", xcm_finish(t->acc));
            if (f2 < 0 && errno != EAGAIN) {
                op_failed(t, 'A', "xcm_finish(accepted)");
                break;
            }
        }
        if (t->acc && f1 == 0 && f2 == 0)
            break;
        RELAX();
    }
    xcm_attr_map_destroy(m);
    if (t->failed)
        return -1;
    OBS("t%d established", t->id);
    return 0;
}

static size_t msg_len(int tid, int no)
{
    static const size_t lens[] = { 1, 300, 17, 4096 };
    return lens[(tid + no) % 4];
}

static int send_one(struct thr *t, struct xcm_socket *from, int msgno, char op)
{
    static __thread unsigned char buf[4096];
    size_t len = msg_len(t->id, msgno), off = 0;
    pay_fill(buf, t->id * 50 + msgno, len);
    for (int i = 0;; i++) {
        int rc = CALL("xcm_send", xcm_send(from, buf + off, len - off));
        if (rc == 0)
            break;
        if (rc > 0) {              /* byte stream: that many bytes were accepted */
            off += rc;
            if (off >= len)
                break;
            continue;
        }
        if (errno != EAGAIN || i > MAXSPIN) {
            op_failed(t, op, "xcm_send");
            return -1;
        }
        RELAX();
    }
    for (int i = 0;; i++) {
        int rc = CALL("xcm_finish", xcm_finish(from));
        if (rc == 0)
            break;
        if (errno != EAGAIN || i > MAXSPIN) {
            op_failed(t, op, "xcm_finish(after send)");
            return -1;
        }
        RELAX();
    }
    return 0;
}

static int recv_one(struct thr *t, struct xcm_socket *at, int owner_tid, int msgno, char op)
{
    static __thread unsigned char buf[8192];
    size_t len = msg_len(owner_tid, msgno), got = 0;
    int bs = -1;
    for (int i = 0;; i++) {
        if (bs < 0) {
            char sv[32] = "";
            bs = xcm_attr_get_str(at, "xcm.service", sv, sizeof sv) >= 0 && !strcmp(sv, "bytestream");
        }
        int rc = CALL("xcm_receive", xcm_receive(at, buf + got, bs ? len - got : sizeof buf));
        if (rc > 0 && bs && got + rc < len) {     /* byte stream: the rest is still to come */
            got += rc;
            continue;
        }
        if (rc > 0) {
            rc += (int)got;
            long d = (size_t)rc == len ? pay_diff(buf, owner_tid * 50 + msgno, len) : -2;
            if (d != -1) {
                char sig[120];
                snprintf(sig, sizeof sig, "C15/delivery/%s/tp=%s", d == -2 ? "wrong-length" : "wrong-bytes", t->tp);
                fail_(sig, "thread %d: message %d arrived with length %d (sent %zu), first differing byte %ld",
                      t->id, msgno, rc, len, d);
                t->failed = 1;
                return -1;
            }
            return 0;
        }
        if (rc == 0) {
            char sig[120];
            snprintf(sig, sizeof sig, "C15/delivery/lost-message/tp=%s", t->tp);
            fail_(sig, "thread %d: connection reports end of stream before message %d arrived", t->id, msgno);
            t->failed = 1;
            return -1;
        }
        if (errno != EAGAIN || i > MAXSPIN) {
            op_failed(t, op, "xcm_receive");
            return -1;
        }
        RELAX();
    }
}

static int check_peer_cn(struct thr *t, char cred, struct xcm_socket *s, const char *side)
{
    char cn[256];
    int rc = CALL("xcm_attr_get_str", xcm_attr_get_str(s, "tls.peer.cert.subject.cn", cn, sizeof cn));
    if (rc < 0) {
        op_failed(t, 'G', "xcm_attr_get_str(tls.peer.cert.subject.cn)");
        return -1;
    }
    if (strcmp(cn, cred_cn(cred)) != 0) {
        char sig[120];
        snprintf(sig, sizeof sig, "C15/identity/peer-presents-other-threads-credentials/side=%s", side);
        fail_(sig, "thread %d: credentials good_%c (CN %s) were designated for both ends of this connection, but the %s "
                   "end sees a peer certificate with CN %s", t->id, cred, cred_cn(cred), side, cn);
        t->failed = 1;
        return -1;
    }
    return 0;
}

static int op_attrs(struct thr *t, const char *tp, char cred)
{
    char v[64];
    struct xcm_socket *s = t->cli ? t->cli : t->srv;
    if (!s)
        return 0;
    int rc = CALL("xcm_attr_get_str", xcm_attr_get_str(s, "xcm.transport", v, sizeof v));
    if (rc < 0 || strcmp(v, tp) != 0) {
        if (rc >= 0)
            errno = 0;
        op_failed(t, 'G', "xcm_attr_get_str(xcm.transport)");
        return -1;
    }
    if (t->cli) {
        const char *ra = CALL("xcm_remote_addr", xcm_remote_addr(t->cli));
        if (!ra) {
            op_failed(t, 'G', "xcm_remote_addr");
            return -1;
        }
    }
    if (is_tls(tp) && cred) {
        if (t->cli && check_peer_cn(t, cred, t->cli, "client") < 0)
            return -1;
        if (t->acc && check_peer_cn(t, t->cred, t->acc, "server") < 0)
            return -1;
    }
    OBS("t%d attrs ok", t->id);
    return 0;
}

static int op_close(struct thr *t, struct xcm_socket **s, char op)
{
    if (!*s)
        return 0;
    int rc = CALL("xcm_close", xcm_close(*s));
    *s = NULL;
    if (rc < 0) {
        op_failed(t, op, "xcm_close");
        return -1;
    }
    OBS("t%d close %c", t->id, op);
    return 0;
}

/* ---- a TLS failure on a socket of this thread's own ------------------------------------------------ */
/* 'F': connect to a raw TCP peer that answers the ClientHello with junk: the handshake must fail (EPROTO) */
static int op_tls_failure_junk(struct thr *t)
{
    int l = socket(AF_INET, SOCK_STREAM | SOCK_NONBLOCK, 0), r = -1;
    struct sockaddr_in sa = { .sin_family = AF_INET };
    socklen_t sl = sizeof sa;
    inet_pton(AF_INET, "127.0.0.1", &sa.sin_addr);
    if (l < 0 || bind(l, (struct sockaddr *)&sa, sizeof sa) < 0 || listen(l, 4) < 0 ||
        getsockname(l, (struct sockaddr *)&sa, &sl) < 0) {
        op_failed(t, 'F', "raw-listener");
        if (l >= 0)
            close(l);
        return -1;
    }
#ifndef H_THR_TSAN
    env_set_raw(l);
#endif
    char a[96];
    snprintf(a, sizeof a, "%s:127.0.0.1:%d", is_tls(t->tp) ? t->tp : "tls", ntohs(sa.sin_port));
    struct thr tt = *t;
    if (!is_tls(t->tp)) {
        snprintf(tt.tp, sizeof tt.tp, "tls");
        tt.cred = 'a';
    }
    struct xcm_attr_map *m = sock_attrs(&tt);
    struct xcm_socket *y = CALL("xcm_connect_a", xcm_connect_a(a, m));
    xcm_attr_map_destroy(m);
    int failed_as_due = 0, answered = 0, e = 0;
    if (!y) {
        e = errno;
        failed_as_due = errno == EPROTO;
    }
    for (int i = 0; y && i <= MAXSPIN; i++) {
        if (r < 0) {
            r = accept4(l, NULL, NULL, SOCK_NONBLOCK);
#ifndef H_THR_TSAN
            if (r >= 0)
                env_set_raw(r);
#endif
        }
        int rc = CALL("xcm_finish", xcm_finish(y));
        if (rc < 0 && errno != EAGAIN) {
            e = errno;
            failed_as_due = 1;
            break;
        }
        if (r >= 0 && !answered) {
            char hello[2048];
            if (recv(r, hello, sizeof hello, 0) > 0) {
                static const char junk[] = "HTTP/1.1 400 Bad Request\r\nConnection: close\r\n\r\n";
                if (send(r, junk, sizeof junk - 1, 0) > 0)
                    answered = 1;
            }
        }
        RELAX();
    }
    if (y)
        CALL("xcm_close", xcm_close(y));
    if (r >= 0)
        close(r);
    close(l);
    if (!failed_as_due) {
        errno = e;
        op_failed(t, 'F', "tls-handshake-with-junk-peer-did-not-fail");
        return -1;
    }
    OBS("t%d tls failure (junk peer): %s", t->id, errname(e));
    return 0;
}

/* 'B': a second connection to this thread's own TLS server with a certificate the policy refuses */
static int op_tls_failure_cert(struct thr *t)
{
    struct xcm_attr_map *m = sock_attrs_cred(t, 'u'), *am = xcm_attr_map_create();
    xcm_attr_map_add_bool(am, "xcm.blocking", false);
    struct xcm_socket *y = CALL("xcm_connect_a", xcm_connect_a(t->addr, m)), *z = NULL;
    xcm_attr_map_destroy(m);
    int yfail = !y, zfail = 0, ok_rounds = 0, after = 0;
    for (int i = 0; i <= MAXSPIN && !(yfail && (zfail || !z)) ; i++) {
        if (!z && !zfail) {
            z = CALL("xcm_accept_a", xcm_accept_a(t->srv, am));
            if (!z && errno != EAGAIN)
                zfail = 1;
        }
        int f1 = 0, f2 = 0;
        if (y && !yfail && (f1 = CALL("xcm_finish", xcm_finish(y))) < 0 && errno != EAGAIN)
            yfail = 1;
        if (z && !zfail && (f2 = CALL("xcm_finish", xcm_finish(z))) < 0 && errno != EAGAIN)
            zfail = 1;
        if (yfail && zfail)
            break;
        if ((yfail || zfail) && ++after > 2)
            break;                     /* the other end may legitimately have nothing more to report */
        if (y && z && !yfail && !zfail && f1 == 0 && f2 == 0 && ++ok_rounds > 3)
            break;                     /* established: the refusal did not happen */
        /* once one end has failed, the other learns it from the closed connection */
        if (yfail && y) {
            CALL("xcm_close", xcm_close(y));
            y = NULL;
        }
        if (zfail && z) {
            CALL("xcm_close", xcm_close(z));
            z = NULL;
        }
        RELAX();
    }
    xcm_attr_map_destroy(am);
    if (y)
        CALL("xcm_close", xcm_close(y));
    if (z)
        CALL("xcm_close", xcm_close(z));
    if (!yfail && !zfail) {
        errno = 0;
        op_failed(t, 'B', "untrusted-certificate-was-not-refused");
        return -1;
    }
    OBS("t%d tls failure (refused certificate) client=%d server=%d", t->id, yfail, zfail);
    return 0;
}

/* 'i' / 'j': receive on an established, idle connection: must say EAGAIN and leave the connection usable */
static int op_idle_receive(struct thr *t, struct xcm_socket *s, const char *tp, char op)
{
    unsigned char b[64];
    if (!s)
        return 0;
    int rc = CALL("xcm_receive", xcm_receive(s, b, sizeof b));
    if (rc < 0 && errno == EAGAIN) {
        OBS("t%d idle receive EAGAIN", t->id);
        return 0;
    }
    char sig[160];
    int e = errno;
    snprintf(sig, sizeof sig, "C15/delivery/idle-receive-on-healthy-connection/%s/tp=%s",
             rc > 0 ? "data-from-nowhere" : rc == 0 ? "end-of-stream" : errname(e), tp);
    fail_(sig, "thread %d: xcm_receive on an established connection with nothing pending returned %d (%s) instead of "
               "-1/EAGAIN; nothing happened on this connection - only other sockets were used by this thread before",
          t->id, rc, rc < 0 ? errname(e) : "-");
    t->failed = 1;
    return -1;
}

/* ---- hand-over ------------------------------------------------------------------------------ */
#ifndef H_THR_TSAN
static int slot_filled(void *a) { (void)a; return g_slot != NULL || g_abort; }
static int done_raised(void *a) { return (g_done & (int)(intptr_t)a) != 0 || g_abort; }
#endif

static void op_handover(struct thr *t)
{
    pthread_mutex_lock(&g_slot_lock);
    g_slot = t->cli;
    g_slot_msgno = t->nsent;
    snprintf(g_slot_tp, sizeof g_slot_tp, "%s", t->tp);
    g_slot_cred = t->cred;
    t->cli = NULL;
#ifdef H_THR_TSAN
    pthread_cond_broadcast(&g_slot_cv);
#endif
    pthread_mutex_unlock(&g_slot_lock);
    OBS("t%d handed over", t->id);
}

static void op_take(struct thr *t)
{
    pthread_mutex_lock(&g_slot_lock);
    while (!g_slot && !g_abort) {
#ifdef H_THR_TSAN
        pthread_cond_wait(&g_slot_cv, &g_slot_lock);
#else
        pthread_mutex_unlock(&g_slot_lock);
        mc_wait_cond(slot_filled, NULL, "wait-slot");
        pthread_mutex_lock(&g_slot_lock);
#endif
    }
    t->cli = g_slot;
    g_slot = NULL;
    if (!t->cli)
        t->failed = 1;         /* the partner's failure has been reported; nothing to take */
    pthread_mutex_unlock(&g_slot_lock);
    OBS("t%d took the socket", t->id);
}

static void op_done(struct thr *t, int bit)
{
    pthread_mutex_lock(&g_slot_lock);
    g_done |= bit;
#ifdef H_THR_TSAN
    pthread_cond_broadcast(&g_slot_cv);
#endif
    pthread_mutex_unlock(&g_slot_lock);
    OBS("t%d done flag", t->id);
}

static void op_wait_done(struct thr *t, int bit)
{
    pthread_mutex_lock(&g_slot_lock);
    while (!(g_done & bit) && !g_abort) {
#ifdef H_THR_TSAN
        pthread_cond_wait(&g_slot_cv, &g_slot_lock);
#else
        pthread_mutex_unlock(&g_slot_lock);
        mc_wait_cond(done_raised, (void *)(intptr_t)bit, "wait-done");
        pthread_mutex_lock(&g_slot_lock);
#endif
    }
    if (!(g_done & bit))
        t->failed = 1;         /* the partner's failure has been reported */
    pthread_mutex_unlock(&g_slot_lock);
    OBS("t%d saw done", t->id);
}

/* ---- a thread ------------------------------------------------------------------------------- */
static void thread_body(void *arg)
{
    struct thr *t = arg;
    int owner = t->id;         /* whose message numbering the client end follows (hand-over) */
    const char *clitp = t->tp;
    char clicred = t->cred;
    for (t->pc = 0; t->script[t->pc] && !t->failed; t->pc++) {
        char op = t->script[t->pc];
        switch (op) {
        case 'S': op_server(t); break;
        case 'C': op_connect(t); break;
        case 'A': op_accept(t); break;
        case 'M':
            if (send_one(t, t->cli, t->nsent, op) == 0) {
                t->nsent++;
                if (recv_one(t, t->acc, t->id, t->nrecv, op) == 0)
                    t->nrecv++;
            }
            OBS("t%d message %d", t->id, t->nrecv);
            break;
        case 'N':
            if (send_one(t, t->acc, 20 + t->nsent, op) == 0)
                recv_one(t, t->cli, t->id, 20 + t->nsent, op);
            OBS("t%d reverse message", t->id);
            break;
        case 'G': op_attrs(t, clitp, clicred); break;
        case 'c': op_close(t, &t->cli, op); break;
        case 'a': op_close(t, &t->acc, op); break;
        case 's': op_close(t, &t->srv, op); break;
        case 'H': op_handover(t); break;
        case 'T':
            op_take(t);
            owner = 0;
            for (int i = 0; i < g_nthr; i++)
                if (strchr(g_thr[i].script, 'H'))
                    owner = i;
            clitp = g_slot_tp;
            clicred = g_slot_cred;
            break;
        case 'm': {
            int no = owner == t->id ? t->nsent : g_slot_msgno;
            struct thr tmp = *t;      /* message pattern of the connection's owner */
            tmp.id = owner;
            if (send_one(&tmp, t->cli, no, op) < 0)
                t->failed = 1;
            else if (owner == t->id)
                t->nsent++;
            OBS("t%d sent", t->id);
            break;
        }
        case 'r':
            if (recv_one(t, t->acc, t->id, t->nrecv, op) == 0)
                t->nrecv++;
            OBS("t%d received", t->id);
            break;
        case 'D': op_done(t, 1); break;
        case 'W': op_wait_done(t, 1); break;
        case 'E': op_done(t, 2); break;
        case 'V': op_wait_done(t, 2); break;
        case 'F': op_tls_failure_junk(t); break;
        case 'B': op_tls_failure_cert(t); break;
        case 'i': op_idle_receive(t, t->cli, clitp, op); break;
        case 'j': op_idle_receive(t, t->acc, t->tp, op); break;
        case 'n':                       /* one message on the accepted end (towards the client end) */
            if (send_one(t, t->acc, 20 + t->nrev, op) == 0)
                t->nrev++;
            OBS("t%d sent on accepted end", t->id);
            break;
        case 'q': {                     /* ... and its reception on the client end (possibly taken over) */
            struct thr tmp = *t;
            snprintf(tmp.tp, sizeof tmp.tp, "%s", clitp);
            if (recv_one(&tmp, t->cli, owner, 20 + t->nq, op) == 0)
                t->nq++;
            else
                t->failed = 1;
            OBS("t%d received on client end", t->id);
            break;
        }
        default: break;
        }
    }
    /* a failed script still releases what it holds, so that the end-state oracles stay meaningful */
    if (t->failed) {
        pthread_mutex_lock(&g_slot_lock);
        g_abort = 1;
#ifdef H_THR_TSAN
        pthread_cond_broadcast(&g_slot_cv);
#endif
        pthread_mutex_unlock(&g_slot_lock);
        if (t->cli) CALL("xcm_close", xcm_close(t->cli));
        if (t->acc) CALL("xcm_close", xcm_close(t->acc));
        if (t->srv) CALL("xcm_close", xcm_close(t->srv));
        t->cli = t->acc = t->srv = NULL;
    }
}

static const char *pget(const char *params, const char *key, char *buf, size_t n, const char *dflt)
{
    size_t kl = strlen(key);
    const char *p = params;
    while (p && *p) {
        if (strncmp(p, key, kl) == 0 && p[kl] == '=') {
            const char *v = p + kl + 1;
            const char *e = strchr(v, ',');
            size_t l = e ? (size_t)(e - v) : strlen(v);
            if (l >= n)
                l = n - 1;
            memcpy(buf, v, l);
            buf[l] = 0;
            return buf;
        }
        p = strchr(p, ',');
        if (p)
            p++;
    }
    snprintf(buf, n, "%s", dflt);
    return buf;
}

static int parse_threads(const char *params)
{
    char b[128], k[8];
    g_nthr = 0;
    memset(g_thr, 0, sizeof g_thr);
    for (int i = 0; i < MAXT; i++) {
        snprintf(k, sizeof k, "t%d", i);
        pget(params, k, b, sizeof b, "");
        if (!b[0])
            break;
        struct thr *t = &g_thr[g_nthr];
        t->id = g_nthr;
        char *colon = strchr(b, ':');
        if (!colon)
            return -1;
        *colon = 0;
        char *slash = strchr(b, '/');
        if (slash) {
            *slash = 0;
            t->cred = slash[1];
        }
        snprintf(t->tp, sizeof t->tp, "%s", b);
        if (is_tls(t->tp) && !t->cred)
            t->cred = 'a';
        snprintf(t->script, sizeof t->script, "%s", colon + 1);
        g_nthr++;
    }
    pget(params, "pki", g_pki, sizeof g_pki, "/verif/build/pki");
    pget(params, "pts", b, sizeof b, "all");
    g_pts_all = strcmp(b, "dep") != 0;
    g_slot = NULL;
    g_done = 0;
    g_abort = 0;
    return g_nthr >= 1 ? 0 : -1;
}

#ifdef H_THR_TSAN
/* ============================================================================================== */
/* free-running passes (ThreadSanitizer build, and a plain build for the socket-id stress)        */
/* ============================================================================================== */
#include "xcm_tp.h"

/* ---- socket-id ledger: every id handed out by xcm_tp_socket_create (wrapped in these builds too) ---- */
struct xcm_socket *__real_xcm_tp_socket_create(const struct xcm_tp_proto *proto, enum xcm_socket_type type,
                                               struct xpoll *xpoll, bool auto_enable_ctl, bool auto_update,
                                               bool is_blocking);
#define IDLOG_MAX (1 << 20)
static int64_t g_idlog[IDLOG_MAX];
static long g_nidlog;

struct xcm_socket *__wrap_xcm_tp_socket_create(const struct xcm_tp_proto *proto, enum xcm_socket_type type,
                                               struct xpoll *xpoll, bool auto_enable_ctl, bool auto_update,
                                               bool is_blocking)
{
    struct xcm_socket *s = __real_xcm_tp_socket_create(proto, type, xpoll, auto_enable_ctl, auto_update, is_blocking);
    if (s) {
        long i = __atomic_fetch_add(&g_nidlog, 1, __ATOMIC_RELAXED);
        if (i < IDLOG_MAX)
            g_idlog[i] = s->sock_id;      /* slot i is written by exactly one thread; read after the joins */
    }
    return s;
}

static int cmp_i64(const void *a, const void *b)
{
    int64_t x = *(const int64_t *)a, y = *(const int64_t *)b;
    return x < y ? -1 : x > y;
}

/* "socket id, unique on a per-process basis" (xcm_tp.c): no id may be handed out twice in the whole run */
static long idlog_duplicates(long *total, int64_t *example)
{
    long n = g_nidlog < IDLOG_MAX ? g_nidlog : IDLOG_MAX, dup = 0;
    qsort(g_idlog, n, sizeof g_idlog[0], cmp_i64);
    for (long i = 1; i < n; i++)
        if (g_idlog[i] == g_idlog[i - 1]) {
            if (!dup)
                *example = g_idlog[i];
            dup++;
        }
    *total = n;
    return dup;
}

static pthread_barrier_t g_bar;

static void *tsan_thread(void *arg)
{
    pthread_barrier_wait(&g_bar);
    thread_body(arg);
    return NULL;
}

/* ---- stress aimed at id allocation: N threads, R rounds, K cheap sockets (ux servers) per round ------ */
static int g_sN, g_sK, g_sR;

static void *stress_thread(void *arg)
{
    int tid = (int)(intptr_t)arg;
    struct xcm_socket *s[64];
    char a[96];
    for (int r = 0; r < g_sR; r++) {
        pthread_barrier_wait(&g_bar);        /* all threads allocate at the same moment */
        for (int k = 0; k < g_sK; k++) {
            snprintf(a, sizeof a, "ux:c15s-%d-%d-%d", (int)getpid(), tid, k);
            s[k] = xcm_server(a);
            if (!s[k])
                fail_("C15/unexpected-failure/op=S/xcm_server/stress/tp=ux", "thread %d round %d: xcm_server(%s): errno %d",
                      tid, r, a, errno);
        }
        for (int k = 0; k < g_sK; k++)
            if (s[k])
                xcm_close(s[k]);
    }
    return NULL;
}

static int run_stress(void)
{
    pthread_t th[16];
    pthread_barrier_init(&g_bar, NULL, g_sN);
    for (int i = 0; i < g_sN; i++)
        pthread_create(&th[i], NULL, stress_thread, (void *)(intptr_t)i);
    for (int i = 0; i < g_sN; i++)
        pthread_join(th[i], NULL);
    pthread_barrier_destroy(&g_bar);
    long total;
    int64_t ex = -1;
    long dup = idlog_duplicates(&total, &ex);
    if (dup)
        fprintf(stderr, "STRESS-VIOLATION C15/socket-id/duplicate/free-running: %ld of %ld socket ids handed out by %d "
                "threads were handed out more than once (e.g. id %lld), although socket ids are unique per process\n",
                dup, total, g_sN, (long long)ex);
    printf("stress-pass threads=%d per_round=%d rounds=%d sockets=%ld duplicate_ids=%ld harness_failures=%d\n", g_sN,
           g_sK, g_sR, total, dup, g_harness_failures);
    return dup ? 4 : g_harness_failures ? 3 : 0;
}

int main(int argc, char **argv)
{
    const char *params = "";
    int reps = 50;
    for (int i = 1; i < argc; i++) {
        if (!strcmp(argv[i], "--params") && i + 1 < argc)
            params = argv[++i];
        else if (!strcmp(argv[i], "--reps") && i + 1 < argc)
            reps = atoi(argv[++i]);
        else if (!strcmp(argv[i], "--stress") && i + 1 < argc) {
            if (sscanf(argv[++i], "%d,%d,%d", &g_sN, &g_sK, &g_sR) != 3 || g_sN < 2 || g_sN > 16 || g_sK < 1 ||
                g_sK > 64 || g_sR < 1) {
                fprintf(stderr, "bad --stress N,K,R\n");
                return 2;
            }
        }
    }
    setenv("XCM_CTL", "/nonexistent-ctl-dir", 1);
    if (g_sN)
        return run_stress();
    for (g_rep = 0; g_rep < reps; g_rep++) {
        if (parse_threads(params) < 0) {
            fprintf(stderr, "bad params\n");
            return 2;
        }
        pthread_t th[MAXT];
        pthread_barrier_init(&g_bar, NULL, g_nthr);
        for (int i = 0; i < g_nthr; i++)
            pthread_create(&th[i], NULL, tsan_thread, &g_thr[i]);
        for (int i = 0; i < g_nthr; i++)
            pthread_join(th[i], NULL);
        pthread_barrier_destroy(&g_bar);
    }
    long total;
    int64_t ex = -1;
    long dup = idlog_duplicates(&total, &ex);
    if (dup)
        fprintf(stderr, "STRESS-VIOLATION C15/socket-id/duplicate/free-running: %ld of %ld socket ids were handed out "
                "more than once (e.g. id %lld) in the free-running pass of scenario %s\n", dup, total, (long long)ex, params);
    printf("tsan-pass reps=%d threads=%d harness_failures=%d sockets=%ld duplicate_ids=%ld\n", reps, g_nthr,
           g_harness_failures, total, dup);
    return dup ? 4 : g_harness_failures ? 3 : 0;
}

#else
/* ============================================================================================== */
/* explorer build: modelled mutexes, scheduling points, ledgers                                   */
/* ============================================================================================== */
int __real_pthread_mutex_lock(pthread_mutex_t *m);
int __real_pthread_mutex_unlock(pthread_mutex_t *m);
int __real_active_fd_get(void);
void __real_active_fd_put(int fd);
SSL_CTX *__real_ctx_store_get_ctx(const struct item *cert, const struct item *key, const struct item *tc,
                                  const struct item *crl, void *log_ref);
void __real_ctx_store_put(SSL_CTX *ctx);
SSL_CTX *__real_SSL_CTX_new(const SSL_METHOD *m);
void __real_SSL_CTX_free(SSL_CTX *ctx);
SSL *__real_SSL_new(SSL_CTX *ctx);
void __real_SSL_free(SSL *ssl);
struct xcm_socket *__real_xcm_tp_socket_create(const struct xcm_tp_proto *proto, enum xcm_socket_type type,
                                               struct xpoll *xpoll, bool auto_enable_ctl, bool auto_update,
                                               bool is_blocking);

static int g_model;            /* ledgers + modelled mutexes active (from scenario start) */

enum { CNT_OPS = 1, CNT_LOCKWAITS = 2, CNT_SCHEDPOINTS = 3, CNT_CTX_SHARED = 4, CNT_POOL_SHARED = 5,
       CNT_CTX_CREATED = 6, CNT_EVENTFDS = 7, CNT_LOCKS = 8 };

/* ---- mutexes -------------------------------------------------------------------------------- */
#define MAXM 16
static struct { pthread_mutex_t *m; int owner; } g_mtx[MAXM];
static int g_nmtx;

static int mtx_index(pthread_mutex_t *m)
{
    for (int i = 0; i < g_nmtx; i++)
        if (g_mtx[i].m == m)
            return i;
    if (g_nmtx >= MAXM)
        mc_fail("internal/too-many-mutexes", "more than %d distinct mutexes", MAXM);
    g_mtx[g_nmtx].m = m;
    g_mtx[g_nmtx].owner = -1;
    return g_nmtx++;
}

static int mtx_free(void *a) { return g_mtx[(int)(intptr_t)a].owner < 0; }

int __wrap_pthread_mutex_lock(pthread_mutex_t *m)
{
    if (!g_model || !mc_in_task())
        return __real_pthread_mutex_lock(m);
    int i = mtx_index(m), me = mc_cur_task();
    mc_count(CNT_LOCKS, 1);
    mc_count(CNT_SCHEDPOINTS, 1);
    mc_sched_point("lock");
    if (g_mtx[i].owner == me)
        mc_fail("C15/self-deadlock", "thread %d locks a mutex it already holds (during %s)", me, mc_cur_api());
    if (g_mtx[i].owner >= 0) {
        mc_count(CNT_LOCKWAITS, 1);
        mc_wait_cond(mtx_free, (void *)(intptr_t)i, "lock-wait");
    }
    if (g_mtx[i].owner >= 0)
        mc_fail("internal/mutex-model", "woken although the mutex is held");
    g_mtx[i].owner = me;
    mc_trace("t%d %s: lock m%d", me, mc_cur_api(), i);
    return __real_pthread_mutex_lock(m);
}

int __wrap_pthread_mutex_unlock(pthread_mutex_t *m)
{
    if (!g_model || !mc_in_task())
        return __real_pthread_mutex_unlock(m);
    int i = mtx_index(m), me = mc_cur_task();
    if (g_mtx[i].owner != me)
        mc_fail("C15/unlock-of-foreign-mutex", "thread %d unlocks a mutex owned by %d (during %s)", me,
                     g_mtx[i].owner, mc_cur_api());
    g_mtx[i].owner = -1;
    mc_trace("t%d %s: unlock m%d", me, mc_cur_api(), i);
    return __real_pthread_mutex_unlock(m);
}

/* ---- shared eventfd pool ledger --------------------------------------------------------------- */
#define MAXPOOL 16
static struct { int fd, users, live; } g_pool[MAXPOOL];
static int g_npool;
#define MAXEREG 64
static struct { int epfd, fd; } g_ereg[MAXEREG];
static int g_nereg;
static int g_pool_gets, g_pool_puts;

static int pool_find(int fd)
{
    for (int i = 0; i < g_npool; i++)
        if (g_pool[i].live && g_pool[i].fd == fd)
            return i;
    return -1;
}

static int fd_is_readable_eventfd(int fd)
{
    struct pollfd p = { .fd = fd, .events = POLLIN };
    int rc = (int)syscall(SYS_poll, &p, 1, 0);
    if (rc != 1 || !(p.revents & POLLIN) || (p.revents & POLLNVAL))
        return 0;
    char link[64], tgt[64];
    snprintf(link, sizeof link, "/proc/self/fd/%d", fd);
    ssize_t n = readlink(link, tgt, sizeof tgt - 1);
    if (n < 0)
        return 0;
    tgt[n] = 0;
    return strstr(tgt, "eventfd") != NULL;
}

static void pool_check_all(const char *when)
{
    for (int i = 0; i < g_npool; i++)
        if (g_pool[i].live && g_pool[i].users > 0 && !fd_is_readable_eventfd(g_pool[i].fd))
            mc_fail("C15/pool/handed-out-descriptor-is-not-a-live-eventfd",
                         "descriptor %d is held by %d user(s) of the shared wake-up pool but is no longer a readable "
                         "eventfd (%s, thread %s during %s)", g_pool[i].fd, g_pool[i].users, when, mc_cur_task_name(),
                         mc_cur_api());
}

int __wrap_active_fd_get(void)
{
    int fd = __real_active_fd_get();
    if (!g_model || fd < 0)
        return fd;
    g_pool_gets++;
    int i = pool_find(fd);
    if (i < 0) {
        if (g_npool >= MAXPOOL)
            mc_fail("internal/pool-ledger", "pool ledger full");
        i = g_npool++;
        g_pool[i].fd = fd;
        g_pool[i].users = 0;
        g_pool[i].live = 1;
        mc_count(CNT_EVENTFDS, 1);
    } else if (g_pool[i].users > 0)
        mc_count(CNT_POOL_SHARED, 1);
    g_pool[i].users++;
    if (g_pool[i].users > 100)
        mc_violation("C15/pool/more-than-100-users", "descriptor %d handed to %d users", fd, g_pool[i].users);
    pool_check_all("after active_fd_get");
    mc_trace("t%d %s: active_fd_get -> %d (users now %d)", mc_cur_task(), mc_cur_api(), fd, g_pool[i].users);
    return fd;
}

void __wrap_active_fd_put(int fd)
{
    if (g_model) {
        int i = pool_find(fd);
        if (i < 0 || g_pool[i].users <= 0)
            mc_fail("C15/pool/put-of-descriptor-not-handed-out", "active_fd_put(%d) without a matching get "
                         "(thread %s during %s)", fd, mc_cur_task_name(), mc_cur_api());
        else {
            pool_check_all("before active_fd_put");
            g_pool[i].users--;       /* from here on the pool may close it (if this was the last user) */
        }
        g_pool_puts++;
        mc_trace("t%d %s: active_fd_put(%d)", mc_cur_task(), mc_cur_api(), fd);
    }
    __real_active_fd_put(fd);
}

static void ledger_epoll_ctl(int epfd, int op, int fd)
{
    int pi = pool_find(fd);
    if (pi < 0)
        return;
    int k = -1;
    for (int i = 0; i < g_nereg; i++)
        if (g_ereg[i].epfd == epfd && g_ereg[i].fd == fd)
            k = i;
    if (op == EPOLL_CTL_ADD && k < 0 && g_nereg < MAXEREG) {
        g_ereg[g_nereg].epfd = epfd;
        g_ereg[g_nereg++].fd = fd;
    } else if (op == EPOLL_CTL_DEL && k >= 0)
        g_ereg[k] = g_ereg[--g_nereg];
}

static void ledger_close(int fd)
{
    /* an epoll instance goes away: its registrations with it */
    for (int i = 0; i < g_nereg;)
        if (g_ereg[i].epfd == fd)
            g_ereg[i] = g_ereg[--g_nereg];
        else
            i++;
    int pi = pool_find(fd);
    if (pi < 0)
        return;
    if (g_pool[pi].users > 0)
        mc_fail("C15/pool/eventfd-closed-while-in-use",
                     "the shared wake-up eventfd %d is closed by thread %s (during %s) while %d socket(s) of other "
                     "callers still use it", fd, mc_cur_task_name(), mc_cur_api(), g_pool[pi].users);
    for (int i = 0; i < g_nereg; i++)
        if (g_ereg[i].fd == fd) {
            mc_fail("C15/pool/eventfd-closed-while-registered",
                         "the shared wake-up eventfd %d is closed by thread %s (during %s) while it is registered in "
                         "epoll instance %d", fd, mc_cur_task_name(), mc_cur_api(), g_ereg[i].epfd);
            g_ereg[i] = g_ereg[--g_nereg];
            i--;
        }
    g_pool[pi].live = 0;
}

/* ---- TLS context ledger ----------------------------------------------------------------------- */
#define MAXCTX 32
static struct { SSL_CTX *ctx; int live, holders, ssls; } g_ctx[MAXCTX];
static int g_nctx;
#define MAXSSL 64
static struct { SSL *ssl; int ctx; } g_ssl[MAXSSL];
static int g_nssl;

static int ctx_find(SSL_CTX *c)
{
    for (int i = g_nctx - 1; i >= 0; i--)
        if (g_ctx[i].ctx == c && g_ctx[i].live)
            return i;
    return -1;
}

SSL_CTX *__wrap_SSL_CTX_new(const SSL_METHOD *m)
{
    SSL_CTX *c = __real_SSL_CTX_new(m);
    if (g_model && c) {
        if (g_nctx >= MAXCTX)
            mc_fail("internal/ctx-ledger", "context ledger full");
        g_ctx[g_nctx].ctx = c;
        g_ctx[g_nctx].live = 1;
        g_ctx[g_nctx].holders = 0;
        g_ctx[g_nctx].ssls = 0;
        g_nctx++;
        mc_count(CNT_CTX_CREATED, 1);
    }
    return c;
}

void __wrap_SSL_CTX_free(SSL_CTX *c)
{
    if (g_model && c) {
        int i = ctx_find(c);
        if (i < 0)
            mc_fail("C15/ctx/free-of-unknown-or-freed-context", "SSL_CTX_free on a context that is not alive "
                         "(thread %s during %s)", mc_cur_task_name(), mc_cur_api());
        else {
            if (g_ctx[i].holders > 0)
                mc_fail("C15/ctx/freed-while-held", "a cached SSL_CTX is freed by thread %s (during %s) while %d "
                             "socket(s) still hold it", mc_cur_task_name(), mc_cur_api(), g_ctx[i].holders);
            if (g_ctx[i].ssls > 0)
                mc_fail("C15/ctx/freed-while-ssl-alive", "a cached SSL_CTX is freed by thread %s (during %s) while "
                             "%d SSL object(s) created from it are alive", mc_cur_task_name(), mc_cur_api(),
                             g_ctx[i].ssls);
            g_ctx[i].live = 0;
        }
    }
    __real_SSL_CTX_free(c);
}

SSL *__wrap_SSL_new(SSL_CTX *c)
{
    int i = -1;
    if (g_model) {
        i = ctx_find(c);
        if (i < 0)
            mc_fail("C15/ctx/ssl-created-from-dead-context", "SSL_new on a context that has been freed (thread %s "
                    "during %s)", mc_cur_task_name(), mc_cur_api());
    }
    SSL *s = __real_SSL_new(c);
    if (g_model && s) {
        if (g_nssl >= MAXSSL)
            mc_fail("internal/ssl-ledger", "ssl ledger full");
        g_ssl[g_nssl].ssl = s;
        g_ssl[g_nssl++].ctx = i;
        g_ctx[i].ssls++;
    }
    return s;
}

void __wrap_SSL_free(SSL *s)
{
    if (g_model && s) {
        int k = -1;
        for (int i = 0; i < g_nssl; i++)
            if (g_ssl[i].ssl == s)
                k = i;
        if (k >= 0) {
            g_ctx[g_ssl[k].ctx].ssls--;
            g_ssl[k] = g_ssl[--g_nssl];
        }
    }
    __real_SSL_free(s);
}

SSL_CTX *__wrap_ctx_store_get_ctx(const struct item *cert, const struct item *key, const struct item *tc,
                                  const struct item *crl, void *log_ref)
{
    SSL_CTX *c = __real_ctx_store_get_ctx(cert, key, tc, crl, log_ref);
    if (g_model && c) {
        int i = ctx_find(c);
        if (i < 0)
            mc_fail("C15/ctx/cache-returned-dead-context", "the context cache handed out a context that has been "
                    "freed (thread %s during %s)", mc_cur_task_name(), mc_cur_api());
        if (g_ctx[i].holders > 0)
            mc_count(CNT_CTX_SHARED, 1);
        g_ctx[i].holders++;
    }
    return c;
}

void __wrap_ctx_store_put(SSL_CTX *c)
{
    if (g_model && c) {
        int i = ctx_find(c);
        if (i < 0 || g_ctx[i].holders <= 0)
            mc_fail("C15/ctx/put-of-context-not-held", "ctx_store_put on a context that is not held (thread %s "
                         "during %s)", mc_cur_task_name(), mc_cur_api());
        else
            g_ctx[i].holders--;
    }
    __real_ctx_store_put(c);
}

/* ---- socket ids ------------------------------------------------------------------------------- */
#define MAXIDS 128
static int64_t g_ids[MAXIDS];
static int g_nids;

struct xcm_socket *__wrap_xcm_tp_socket_create(const struct xcm_tp_proto *proto, enum xcm_socket_type type,
                                               struct xpoll *xpoll, bool auto_enable_ctl, bool auto_update,
                                               bool is_blocking)
{
    struct xcm_socket *s = __real_xcm_tp_socket_create(proto, type, xpoll, auto_enable_ctl, auto_update, is_blocking);
    if (g_model && s) {
        for (int i = 0; i < g_nids; i++)
            if (g_ids[i] == s->sock_id)
                mc_violation("C15/socket-id-not-unique", "two sockets of this process were given the same id (the "
                             "second one in thread %s during %s)", mc_cur_task_name(), mc_cur_api());
        if (g_nids < MAXIDS)
            g_ids[g_nids++] = s->sock_id;
    }
    return s;
}

/* ---- scheduling points at the OpenSSL entry points of library initialisation / TLS socket creation ---- */
/* The calls that build or read process-global OpenSSL state (library init, the BIO method table behind
   bio_btcp_method) are scheduling points in every mode; SSL_set_bio touches one socket's objects only and is a
   point under pts=all.  While the real function runs, the API label is "<xcm call>>OpenSSL function", so a crash
   inside OpenSSL names the entry point. */
int __real_OPENSSL_init_ssl(uint64_t opts, const OPENSSL_INIT_SETTINGS *settings);
int __real_BIO_get_new_index(void);
BIO_METHOD *__real_BIO_meth_new(int type, const char *name);
int __real_BIO_meth_set_write(BIO_METHOD *m, int (*f)(BIO *, const char *, int));
int __real_BIO_meth_set_read(BIO_METHOD *m, int (*f)(BIO *, char *, int));
int __real_BIO_meth_set_ctrl(BIO_METHOD *m, long (*f)(BIO *, int, long, void *));
int __real_BIO_meth_set_create(BIO_METHOD *m, int (*f)(BIO *));
int __real_BIO_meth_set_destroy(BIO_METHOD *m, int (*f)(BIO *));
BIO *__real_BIO_new(const BIO_METHOD *m);
void __real_SSL_set_bio(SSL *s, BIO *r, BIO *w);

static int ossl_enter(const char *name, int global, char *old, size_t n)
{
    if (!g_model || !mc_in_task() || !mc_cur_api()[0])
        return 0;
    if (global || g_pts_all) {
        mc_count(CNT_SCHEDPOINTS, 1);
        mc_sched_point(name);
    }
    char nm[64];
    snprintf(old, n, "%s", mc_cur_api());
    snprintf(nm, sizeof nm, "%.40s>%s", old, name + 5);
    mc_trace("t%d %s: %s", mc_cur_task(), old, name);
    mc_api_begin(nm, mc_cur_api_nonblocking());
    return 1;
}

static void ossl_leave(int entered, const char *old)
{
    if (entered)
        mc_api_begin(old, mc_cur_api_nonblocking());
}

#define OSSL_WRAP(global, name, call) ({ char _old[64]; int _e = ossl_enter("ossl:" name, global, _old, sizeof _old); \
                                         __typeof__(call) _r = (call); ossl_leave(_e, _old); _r; })

int __wrap_OPENSSL_init_ssl(uint64_t opts, const OPENSSL_INIT_SETTINGS *settings)
{
    return OSSL_WRAP(1, "OPENSSL_init_ssl", __real_OPENSSL_init_ssl(opts, settings));
}
int __wrap_BIO_get_new_index(void) { return OSSL_WRAP(1, "BIO_get_new_index", __real_BIO_get_new_index()); }
BIO_METHOD *__wrap_BIO_meth_new(int type, const char *name)
{
    return OSSL_WRAP(1, "BIO_meth_new", __real_BIO_meth_new(type, name));
}
int __wrap_BIO_meth_set_write(BIO_METHOD *m, int (*f)(BIO *, const char *, int))
{
    return OSSL_WRAP(1, "BIO_meth_set_write", __real_BIO_meth_set_write(m, f));
}
int __wrap_BIO_meth_set_read(BIO_METHOD *m, int (*f)(BIO *, char *, int))
{
    return OSSL_WRAP(1, "BIO_meth_set_read", __real_BIO_meth_set_read(m, f));
}
int __wrap_BIO_meth_set_ctrl(BIO_METHOD *m, long (*f)(BIO *, int, long, void *))
{
    return OSSL_WRAP(1, "BIO_meth_set_ctrl", __real_BIO_meth_set_ctrl(m, f));
}
int __wrap_BIO_meth_set_create(BIO_METHOD *m, int (*f)(BIO *))
{
    return OSSL_WRAP(1, "BIO_meth_set_create", __real_BIO_meth_set_create(m, f));
}
int __wrap_BIO_meth_set_destroy(BIO_METHOD *m, int (*f)(BIO *))
{
    return OSSL_WRAP(1, "BIO_meth_set_destroy", __real_BIO_meth_set_destroy(m, f));
}
BIO *__wrap_BIO_new(const BIO_METHOD *m) { return OSSL_WRAP(1, "BIO_new", __real_BIO_new(m)); }
void __wrap_SSL_set_bio(SSL *s, BIO *r, BIO *w)
{
    char old[64];
    int e = ossl_enter("ossl:SSL_set_bio", 0, old, sizeof old);
    __real_SSL_set_bio(s, r, w);
    ossl_leave(e, old);
}

/* ---- scheduling points at shim calls ------------------------------------------------------------ */
static int is_dependent_call(const char *n)
{
    static const char *dep[] = { "socket", "accept4", "accept", "eventfd", "epoll_create1", "timerfd_create", "fopen",
                                 "close", "epoll_ctl", "bind", "listen", "connect", NULL };
    for (int i = 0; dep[i]; i++)
        if (!strcmp(dep[i], n))
            return 1;
    return 0;
}

static void syscall_hook(const char *name, long a, long b, long c)
{
    if (!g_model || !mc_in_task() || !mc_cur_api()[0])
        return;
    int me = mc_cur_task();
    if (me >= 0 && me < MAXT)
        g_thr[me].hooks++;
    if (g_pts_all || is_dependent_call(name)) {
        mc_count(CNT_SCHEDPOINTS, 1);
        mc_sched_point(name);
    }
    mc_trace("t%d %s: %s(%ld, %ld, %ld)", me, mc_cur_api(), name, a, strcmp(name, "epoll_ctl") ? 0 : b,
             strcmp(name, "epoll_ctl") ? 0 : c);
    /* the call happens now */
    if (!strcmp(name, "close"))
        ledger_close((int)a);
    else if (!strcmp(name, "epoll_ctl"))
        ledger_epoll_ctl((int)a, (int)b, (int)c);
}

static uint64_t state_digest(void)
{
    uint64_t h = 0xC15;
    for (int i = 0; i < g_nthr; i++) {
        h = mc_hash_mix(h, (uint64_t)g_thr[i].pc * 4096 + g_thr[i].hooks);
        h = mc_hash_mix(h, (uint64_t)g_thr[i].nsent * 16 + g_thr[i].nrecv + (mc_task_done(i) ? 1000 : 0));
    }
    for (int i = 0; i < g_nmtx; i++)
        h = mc_hash_mix(h, g_mtx[i].owner + 2);
    for (int i = 0; i < g_npool; i++)
        h = mc_hash_mix(h, g_pool[i].live ? g_pool[i].users + 16 : 7);
    for (int i = 0; i < g_nctx; i++)
        h = mc_hash_mix(h, g_ctx[i].live ? g_ctx[i].holders * 16 + g_ctx[i].ssls : 5);
    h = mc_hash_mix(h, g_nereg);
    return h;
}

/* open descriptors by /proc/self/fd, without glibc's transient read of /proc/sys/vm/overcommit_memory (made by
   an exiting thread that trims its malloc arena, concurrently with the main thread) */
static int count_fds(char *what, size_t n)
{
    int cnt = 0;
    if (what)
        what[0] = 0;
    for (int fd = 0; fd < 256; fd++) {
        char l[64], tg[128];
        snprintf(l, sizeof l, "/proc/self/fd/%d", fd);
        ssize_t k = readlink(l, tg, sizeof tg - 1);
        if (k <= 0)
            continue;
        tg[k] = 0;
        if (strstr(tg, "overcommit_memory"))
            continue;
        cnt++;
        if (what)
            snprintf(what + strlen(what), n - strlen(what), " %d=%s", fd, tg);
    }
    return cnt;
}

static void scenario(const char *params)
{
    /* one malloc arena: no per-thread heaps, hence no heap trimming (and no /proc read) when a task thread exits */
    mallopt(M_ARENA_MAX, 1);
    if (parse_threads(params) < 0)
        mc_fail("internal/params", "bad params: %s", params);
    setenv("XCM_CTL", "/nonexistent-ctl-dir", 1);
    struct env_cfg cfg = { .io_menu = 0, .only_task = -1 };
    env_init(&cfg);
    det_rand_install(1);
    int base_fds = count_fds(NULL, 0);
    mc_set_state_fn(state_digest);
    for (int i = 0; i < g_nthr; i++) {
        char nm[8];
        snprintf(nm, sizeof nm, "t%d", i);
        mc_task_create(nm, thread_body, &g_thr[i]);
    }
    g_model = 1;
    env_syscall_hook = syscall_hook;
    enum mc_end end = mc_run(60000);
    env_syscall_hook = NULL;
    g_model = 0;

    if (end == MC_END_QUIESCENT) {
        char who[64] = "";
        for (int i = 0; i < g_nthr; i++)
            if (!mc_task_done(i))
                snprintf(who + strlen(who), sizeof who - strlen(who), " t%d@%c", i, g_thr[i].script[g_thr[i].pc]);
        mc_violation("C15/deadlock", "no thread can run but these have not finished:%s (a thread waits for a lock or a "
                     "hand-over that nobody will ever release)", who);
    } else if (end == MC_END_HORIZON)
        mc_violation("C15/livelock", "step horizon reached: the threads keep running without finishing");
    else if (!g_abort) {
        /* end-state oracles (skipped when a thread gave up after a reported failure: a socket may be left in the
           hand-over slot; the failure itself is the finding) */
        for (int i = 0; i < g_npool; i++)
            if (g_pool[i].live)
                mc_violation("C15/pool/not-empty-at-end", "all sockets are closed but the shared wake-up pool still "
                             "owns eventfd %d (%d users on record)", g_pool[i].fd, g_pool[i].users);
        if (g_pool_gets != g_pool_puts)
            mc_violation("C15/pool/gets-and-puts-differ", "%d active_fd_get vs %d active_fd_put", g_pool_gets,
                         g_pool_puts);
        for (int i = 0; i < g_nctx; i++)
            if (g_ctx[i].live)
                mc_violation("C15/ctx/not-freed-at-end", "all sockets are closed but a cached SSL_CTX is still alive "
                             "(%d holders, %d SSL objects on record)", g_ctx[i].holders, g_ctx[i].ssls);
        if (g_nssl)
            mc_violation("C15/ctx/ssl-not-freed-at-end", "%d SSL object(s) alive after all sockets were closed", g_nssl);
        char what[500];
        int fds = count_fds(what, sizeof what);
        if (fds != base_fds)
            mc_violation("C15/descriptors-not-back-to-baseline", "%d descriptors open before the threads started, %d "
                         "after all of them closed all their sockets:%s", base_fds, fds, what);
        if (env_stray_closes())
            mc_violation("C15/stray-close", "%d close() call(s) on descriptors the library did not own at that moment",
                         env_stray_closes());
        for (int i = 0; i < g_nthr; i++) {
            int want_s = 0, want_r = 0;
            for (const char *p = g_thr[i].script; *p; p++) {
                want_s += *p == 'M';
                want_r += *p == 'M' || *p == 'r';
            }
            if (!g_thr[i].failed && g_thr[i].nrecv != want_r)
                mc_violation("C15/delivery/count", "thread %d received %d of %d messages", i, g_thr[i].nrecv, want_r);
            (void)want_s;
        }
    }
    int ops = 0;
    for (int i = 0; i < g_nthr; i++)
        ops += g_thr[i].pc;
    mc_count(CNT_OPS, ops);
    mc_outcome("end=%d ops=%d eventfds=%d ctxs=%d ids=%d", end, ops, g_npool, g_nctx, g_nids);
}

int main(int argc, char **argv)
{
    return mc_main(argc, argv, scenario, NULL);
}
#endif
