#!/usr/bin/python3
"""Run the registered checks against the seeded property-breaking changes kept under /verif/seeded/.

  python3 engine/seeded_run.py [--tier quick|thorough] [id ...]

For every /verif/seeded/<id>/ (patch.diff + meta.json) the patch is applied to /repo's working tree
(git apply), the checks named in meta.json["checks"] (default: the check of meta.json["property"]) are run,
and the tree is restored straight afterwards (git checkout -- . ; the patch's new files removed).  A seeded
change counts as DETECTED when a check exits 1 with a VIOLATION line.  Nothing is ever committed to /repo.
Results go to stdout and to /verif/seeded/RESULTS.json.
"""
import json
import os
import subprocess
import sys
import time

VERIF = os.path.dirname(os.path.dirname(os.path.abspath(__file__)))
SEEDED = os.path.join(VERIF, "seeded")
REPO = "/repo"


def sh(cmd, **kw):
    return subprocess.run(cmd, shell=True, capture_output=True, text=True, **kw)


def clean_repo():
    sh("git -C %s checkout -- ." % REPO)


def main():
    args = sys.argv[1:]
    tier = "quick"
    if "--tier" in args:
        i = args.index("--tier")
        tier = args[i + 1]
        del args[i:i + 2]
    scratch = "--scratch" in args
    if scratch:
        # while other work is reading /repo: use a throw-away worktree and point the build at it (VERIF_REPO)
        args.remove("--scratch")
        global REPO
        REPO = "/var/tmp/seeded-wt-%d" % os.getpid()
        sh("git -C /repo worktree add -f %s HEAD" % REPO)
        for f in ("common/config.h", "include/xcm_version.h"):
            if os.path.exists("/repo/" + f):
                sh("cp /repo/%s %s/%s" % (f, REPO, f))
        os.environ["VERIF_REPO"] = REPO
    ids = args or sorted(d for d in os.listdir(SEEDED) if os.path.isdir(os.path.join(SEEDED, d)))
    if sh("git -C %s status --porcelain --untracked-files=no" % REPO).stdout.strip():
        print("refusing to run: /repo has uncommitted changes to tracked files")
        return 2
    results = {}
    for sid in ids:
        d = os.path.join(SEEDED, sid)
        meta = json.load(open(os.path.join(d, "meta.json")))
        checks = meta.get("checks") or [meta["property"]]
        base = meta.get("base")
        if base and scratch:
            # a change written against an earlier commit whose failure mode a later fix: commit removed altogether
            # (meta.json says which): it is run on a worktree of that commit
            sh("git -C %s checkout -q --detach %s" % (REPO, base))
        elif base:
            results[sid] = dict(error="needs --scratch (base commit %s)" % base)
            print("%-28s SKIPPED (base commit %s needs --scratch)" % (sid, base))
            continue
        r = sh("git -C %s apply --whitespace=nowarn %s" % (REPO, os.path.join(d, "patch.diff")))
        if r.returncode != 0:
            results[sid] = dict(error="patch does not apply: " + r.stderr[-300:])
            print("%-28s PATCH DOES NOT APPLY" % sid)
            clean_repo()
            continue
        try:
            res = {}
            for c in checks:
                t0 = time.time()
                env = dict(os.environ, VERIF_EVIDENCE_DIR=os.path.join(VERIF, "build", "seeded-evidence"))
                p = subprocess.run(["/usr/bin/python3", os.path.join(VERIF, "engine", "run_check.py"), c, "--tier", tier],
                                   capture_output=True, text=True, cwd=VERIF, env=env)
                sigs = [l.split("signature:", 1)[1].strip() for l in p.stdout.splitlines() if "signature:" in l]
                res[c] = dict(rc=p.returncode, signatures=sigs[:8] if not meta.get('expect_signature_substr') else sigs[:40], wall_s=round(time.time() - t0, 1))
                print("%-28s %-4s rc=%d %s (%.0fs)" % (sid, c, p.returncode,
                                                      "DETECTED " + "; ".join(sigs[:3]) if p.returncode == 1 else
                                                      ("BROKEN" if p.returncode == 2 else "missed"), time.time() - t0))
                sys.stdout.flush()
            want = meta.get("expect_signature_substr")
            results[sid] = dict(property=meta["property"], tier=tier, checks=res,
                                detected=any(v["rc"] == 1 and (not want or any(want in g for g in v["signatures"]))
                                             for v in res.values()))
        finally:
            clean_repo()
            if base and scratch:
                sh("git -C %s checkout -q --detach %s" % (REPO, sh("git -C /repo rev-parse HEAD").stdout.strip()))
    if scratch:
        sh("git -C /repo worktree remove --force %s; git -C /repo worktree prune" % REPO)
    prev = {}
    if os.path.exists(os.path.join(SEEDED, "RESULTS.json")) and args:
        prev = json.load(open(os.path.join(SEEDED, "RESULTS.json")))
    prev.update(results)
    results = prev
    with open(os.path.join(SEEDED, "RESULTS.json"), "w") as f:
        json.dump(results, f, indent=1, sort_keys=True)
    nd = sum(1 for v in results.values() if v.get("detected"))
    print("detected %d of %d" % (nd, len(results)))
    return 0


if __name__ == "__main__":
    sys.exit(main())
