#!/usr/bin/python3
"""Entry point named in MANIFEST.json.

  python3 engine/run_check.py <Cxx> --tier quick|thorough [--jobs N] [--deadline S]
  python3 engine/run_check.py --replay replays/<file>.json

Exit 0: property held on everything explored.  Exit 1 + "VIOLATION property=<id> replay=<path>":
a violation not listed in known_findings.json.  Exit 2: the check itself is broken.
"""
import argparse
import importlib
import json
import os
import subprocess
import sys
import traceback

HERE = os.path.dirname(os.path.abspath(__file__))
sys.path.insert(0, HERE)
import build  # noqa: E402
import common  # noqa: E402


def replay(path):
    with open(path) as f:
        art = json.load(f)
    cmd = art.get("replay_cmd")
    if not cmd:
        print("artefact has no replay command; its content:")
        print(json.dumps(art, indent=1)[:4000])
        return 0
    # rebuild the harness from the current tree first
    pid = art["property"]
    mod = importlib.import_module("checks." + pid)
    if hasattr(mod, "prepare_replay"):
        mod.prepare_replay(art)
    print("+ " + cmd)
    return subprocess.call(cmd, shell=True)


def main():
    # every process started by a check inherits this: glibc fills malloc'ed blocks with a non-zero pattern and freed
    # ones with its complement, so a forgotten initialisation or a read after free misbehaves deterministically
    # (plain builds; the sanitizer build has its own fill, see harnesses.asan_env)
    os.environ.setdefault("MALLOC_PERTURB_", "165")
    ap = argparse.ArgumentParser()
    ap.add_argument("prop", nargs="?")
    ap.add_argument("--tier", default=os.environ.get("VERIF_TIER") or "quick")
    ap.add_argument("--jobs", type=int, default=int(os.environ.get("VERIF_JOBS", "16")))
    ap.add_argument("--deadline", type=float, default=None)
    ap.add_argument("--replay")
    a = ap.parse_args()
    if a.replay:
        return replay(a.replay)
    if os.environ.get("VERIF_TIER") in ("quick", "thorough"):
        a.tier = os.environ["VERIF_TIER"]
    pid = a.prop
    mod = importlib.import_module("checks." + pid)
    chk = common.Check(pid, a.tier, getattr(mod, "LEVEL", "model_checking"))
    try:
        mod.run(chk, a.tier, a.jobs, a.deadline)
    except build.BuildError as e:
        chk.broke("build failed: %s" % str(e)[-3000:])
    except Exception:  # noqa: BLE001
        chk.broke("check crashed: %s" % traceback.format_exc()[-3000:])
    # evidence must exist even for a broken run
    if not chk.coverage.get("samples"):
        chk.coverage.setdefault("samples", ["(no execution completed)"])
    for k in ("states", "transitions", "traces_validated_against_impl"):
        chk.coverage.setdefault(k, 0)
    rc = chk.finish()
    build.prune_cache()
    return rc


if __name__ == "__main__":
    sys.exit(main())
