#!/usr/bin/python3
"""Import one seeded change produced by an independent sub-agent into /verif/seeded/<id>/.

  stage_seed.py <id> <agent output dir> <patch file name> <demo dir name> <property> <checks,comma separated> <what> <needs>
"""
import json
import os
import shutil
import subprocess
import sys

sid, out, patch, demo, prop, checks, what, needs = sys.argv[1:9]
d = os.path.join(os.path.dirname(os.path.dirname(os.path.abspath(__file__))), "seeded", sid)
shutil.rmtree(d, ignore_errors=True)
os.makedirs(d)
shutil.copy(os.path.join(out, patch), os.path.join(d, "patch.diff"))
shutil.copytree(os.path.join(out, demo), os.path.join(d, "demo"))
shutil.copy(os.path.join(out, "notes.md"), os.path.join(d, "notes.md"))
for root, _, files in os.walk(d):
    for f in files:
        p = os.path.join(root, f)
        if f.endswith((".o", ".pem", ".log", ".so")) or (os.access(p, os.X_OK) and os.path.getsize(p) > 50000):
            os.unlink(p)
json.dump({"property": prop, "checks": checks.split(","), "origin": "independent sub-agent, fourth round (property text + the list of "
           "changes already taken + scratch worktree only)", "what": what, "needs": needs,
           "suite": "SUITE-OK 154/154 on the changed tree (sub-agent's run; see notes.md)",
           "demo": "demo/run.sh <tree>: exit 1 on the changed tree, 0 on the unchanged one (sub-agent's run; see notes.md)"},
          open(os.path.join(d, "meta.json"), "w"), indent=1)
r = subprocess.run(["git", "-C", "/repo", "apply", "--check", os.path.join(d, "patch.diff")], capture_output=True, text=True)
print(sid, "applies" if r.returncode == 0 else "DOES NOT APPLY: " + r.stderr[:200])
