#!/usr/bin/python3
"""Harness build recipes and the Python side of the explorer protocol."""
import json
import os
import subprocess
import sys
import time

sys.path.insert(0, os.path.dirname(os.path.abspath(__file__)))
import build  # noqa: E402

WRAPS = """socket bind listen connect accept4 accept send recv close getsockname getpeername
setsockopt getsockopt poll ppoll select epoll_create1 epoll_ctl epoll_wait eventfd timerfd_create
timerfd_settime clock_gettime nanosleep usleep sleep fopen""".split()

MCX = ["mcx/mcx.c"]
SHIM = ["envshim/envshim.c", "harness/detrand.c"]

RUN_DIR = os.path.join(build.BUILD, "run")


def build_explorer_harness(name, variant="plain", extra_srcs=(), relay=False, xcmc=False,
                           extra_wraps=(), extra_defs=()):
    return build.build_harness(name, ["harness/%s.c" % name] + MCX + SHIM + list(extra_srcs),
                               variant=variant, wraps=WRAPS + list(extra_wraps), relay=relay,
                               xcmc=xcmc, extra_defs=extra_defs)


def plain_env():
    """glibc fills every malloc'ed block with a non-zero pattern (and every freed one with its complement): a field
    the code forgot to initialise - or reads after free - misbehaves deterministically instead of happening to be 0"""
    env = dict(os.environ)
    env.setdefault("MALLOC_PERTURB_", "165")
    return env


def asan_env():
    env = dict(os.environ)
    env["ASAN_OPTIONS"] = "detect_leaks=0:abort_on_error=1:detect_stack_use_after_return=1:" \
                          "allocator_may_return_null=1:handle_abort=0:symbolize=1:max_malloc_fill_size=1048576:" \
                          "malloc_fill_byte=165"
    env["UBSAN_OPTIONS"] = "halt_on_error=1:abort_on_error=1:print_stacktrace=1"
    return env


def explore(exe, params, bound, deadline_s, jobs=16, tag=None, env=None):
    """Run one exploration; returns the parsed result dict (with 'rc')."""
    os.makedirs(RUN_DIR, exist_ok=True)
    tag = tag or ("x%d" % (abs(hash((exe, params, bound))) % 10 ** 9))
    out = os.path.join(RUN_DIR, "%s-%d.json" % (tag, os.getpid()))
    cmd = [exe, "--explore", "--params", params, "--bound", str(bound), "--jobs", str(jobs),
           "--deadline", str(max(1, int(deadline_s))), "--out", out]
    t0 = time.time()
    r = subprocess.run(cmd, capture_output=True, env=env if env is not None else plain_env())
    res = None
    if os.path.exists(out):
        try:
            with open(out) as f:
                res = json.load(f)
        except Exception as e:  # noqa: BLE001
            res = None
    if res is None:
        res = dict(broken="explorer produced no result (rc=%d): %s" %
                   (r.returncode, (r.stderr or b"").decode(errors="replace")[-500:]),
                   executions=0, states=0, transitions=0, distinct_outcomes=0, violations=[],
                   infos=[], samples=[], completed_bound=-1, deadline_hit=False, counters=[0] * 24)
    res["rc"] = r.returncode
    res["cmd"] = " ".join(cmd[:1] + ["--explore", "--params", "'%s'" % params, "--bound", str(bound)])
    res["exe"] = exe
    res["elapsed"] = time.time() - t0
    # attach logs of violations
    for v in res.get("violations", []):
        lp = "%s.viol%d.log" % (out, v["index"])
        ep = "%s.viol%d.stderr" % (out, v["index"])
        v["log"] = open(lp, errors="replace").read()[-6000:] if os.path.exists(lp) else ""
        v["stderr"] = open(ep, errors="replace").read()[:6000] if os.path.exists(ep) else ""
        for p in (lp, ep):
            if os.path.exists(p):
                os.unlink(p)
    try:
        os.unlink(out)
    except OSError:
        pass
    return res


def refine_crash_signature(v):
    """crash/<sig>/in=<api>  ->  add sanitizer bug type and the first XCM frame."""
    import re
    sig = v["signature"]
    err = v.get("stderr", "")
    m = re.search(r"ERROR: AddressSanitizer: ([a-z0-9-]+)", err)
    kind = m.group(1) if m else None
    if not kind:
        m = re.search(r"runtime error: ([^\n]{0,60})", err)
        kind = ("ubsan:" + re.sub(r"[^a-z]+", "-", m.group(1).lower())[:30]) if m else None
    if not kind:
        m = re.search(r"Assertion [`'\"]?(.{0,50}?)['\"]? failed", err) or re.search(r"ssertion \"(.{0,50}?)\"", err)
        kind = ("assert:" + re.sub(r"[^A-Za-z0-9_<>=!]+", "_", m.group(1))[:40]) if m else None
    frame = None
    for fm in re.finditer(r"#\d+ 0x[0-9a-f]+ in (\S+) (\S+)", err):
        fn, where = fm.group(1), fm.group(2)
        if "/repo/" in where or "libxcm" in where or "xcm" in os.path.basename(where):
            if not fn.startswith("__"):
                frame = fn
                break
    parts = [sig]
    if kind:
        parts.append(kind)
    if frame:
        parts.append("at=" + frame)
    return "/".join(parts)


def merge_into(check, res, prop_prefixes, label, build_variant="plain"):
    """Fold one exploration result into a common.Check.  Violations whose signature starts with
    one of prop_prefixes belong to this property; others are ignored here (their own check
    reports them)."""
    if res.get("broken"):
        check.broke("%s: %s" % (label, res["broken"]))
    if res.get("deadline_hit"):
        check.deadline_hit = True
    for v in res.get("violations", []):
        sig = v["signature"]
        if v.get("crash"):
            sig = refine_crash_signature(v)
        if sig.startswith("internal/"):
            check.broke("%s: harness-internal failure %s: %s" % (label, sig, v["text"]))
            continue
        if not any(sig.startswith(p) for p in prop_prefixes):
            continue
        if not v.get("reproduced"):
            if v.get("crash") and "watchdog" in sig:
                # an execution starved of CPU for 60 s of wall-clock time on an overloaded machine and killed by the
                # explorer's watchdog, which ran normally when repeated: not a verdict, a hole in this run's coverage
                check.info("watchdog", "an execution was killed by the 60 s wall-clock watchdog and ran normally when repeated "
                           "(machine overloaded); it is not counted as explored")
                check.deadline_hit = True
                continue
            check.broke("%s: violation %s did not reproduce deterministically on replay" % (label, sig))
            continue
        replay = dict(harness=os.path.basename(res["exe"]), params=res.get("params"),
                      build=build_variant, choices=v["choices"], non_default_choices=v["non_default"],
                      deviations=v["deviations"], observations=v.get("log", "").splitlines()[-120:],
                      stderr=v.get("stderr", "")[:3000],
                      replay_cmd="%s --replay-choices %s --params '%s'" %
                                 (res["exe"], v["choices"] or "''", res.get("params")))
        check.finding(sig, v["text"] + "  [scenario: %s; %d deviation(s)]" % (res.get("params"), v["deviations"]),
                      replay)
    for i in res.get("infos", []):
        check.info(i["key"], i["text"])
