/* mcx - explorer, scheduler, replay.  See mcx.h and DESIGN.md §1.3. */
#define _GNU_SOURCE
#include "mcx.h"

#include <errno.h>
#include <fcntl.h>
#include <pthread.h>
#include <sched.h>
#include <semaphore.h>
#include <signal.h>
#include <stdio.h>
#include <stdlib.h>
#include <string.h>
#include <sys/mman.h>
#include <sys/resource.h>
#include <sys/stat.h>
#include <sys/time.h>
#include <sys/wait.h>
#include <time.h>
#include <unistd.h>

#define MC_MAX_POINTS 3072
#define MC_MAX_LABELS 192
#define MC_LABEL_LEN 48
#define MC_MAX_VIOL 4
#define MC_OBS_MAX (96 * 1024)

struct mc_point {
    uint8_t n, chosen, kind, pad;
    uint16_t label, costmask;
};

struct mc_viol {
    char signature[200];
    char text[1400];
};

struct mc_rec {
    /* input */
    int prefix_len;
    int verbose;
    int bound;
    uint8_t prefix[MC_MAX_POINTS];
    /* output */
    volatile int done;
    int verdict;
    int nviol;
    struct mc_viol viol[MC_MAX_VIOL];
    int npoints;
    int cost_used;
    struct mc_point points[MC_MAX_POINTS];
    uint64_t point_hash[MC_MAX_POINTS];
    uint64_t state_hash[MC_MAX_POINTS];
    uint64_t final_state_hash;
    uint64_t outcome_hash;
    char outcome[256];
    int64_t counters[MC_NCOUNTERS];
    int ninfo;
    char info_key[6][64];
    char info_text[6][200];
    int nlabels;
    char labels[MC_MAX_LABELS][MC_LABEL_LEN];
    char cur_api[64];
    char cur_task[24];
    int steps;
    int obs_len;
    char obs[MC_OBS_MAX];
};

static struct mc_rec *g_rec;
static struct mc_rec g_local_rec;   /* used when running outside the explorer */
static uint64_t g_obs_hash = 0x9e3779b97f4a7c15ULL;
static uint64_t (*g_state_fn)(void);
static int g_signals;

/* ------------------------------------------------------------------------------------ */
uint64_t mc_hash_mix(uint64_t h, uint64_t v)
{
    h ^= v + 0x9e3779b97f4a7c15ULL + (h << 6) + (h >> 2);
    h *= 0xff51afd7ed558ccdULL;
    h ^= h >> 33;
    return h;
}

uint64_t mc_hash_bytes(uint64_t h, const void *p, size_t n)
{
    const unsigned char *b = p;
    uint64_t x = 1469598103934665603ULL;
    for (size_t i = 0; i < n; i++) {
        x ^= b[i];
        x *= 1099511628211ULL;
    }
    return mc_hash_mix(h, x ^ n);
}

static uint64_t hash_str(const char *s) { return mc_hash_bytes(7, s, strlen(s)); }

bool mc_verbose(void) { return g_rec && g_rec->verbose; }
bool mc_replaying(void) { return g_rec && g_rec->npoints < g_rec->prefix_len; }
int mc_budget_left(void) { return g_rec ? g_rec->bound - g_rec->cost_used : 0; }

static void obs_append(const char *s)
{
    if (!g_rec || !g_rec->verbose)
        return;
    size_t l = strlen(s);
    if (g_rec->obs_len + l + 2 >= MC_OBS_MAX)
        return;
    memcpy(g_rec->obs + g_rec->obs_len, s, l);
    g_rec->obs_len += l;
    g_rec->obs[g_rec->obs_len++] = '\n';
    g_rec->obs[g_rec->obs_len] = 0;
}

void mc_observe(const char *fmt, ...)
{
    char buf[512];
    va_list ap;
    va_start(ap, fmt);
    vsnprintf(buf, sizeof buf, fmt, ap);
    va_end(ap);
    g_obs_hash = mc_hash_mix(g_obs_hash, hash_str(buf));
    obs_append(buf);
}

void mc_trace(const char *fmt, ...)
{
    if (!mc_verbose())
        return;
    char buf[512];
    va_list ap;
    va_start(ap, fmt);
    buf[0] = ' ';
    buf[1] = ' ';
    vsnprintf(buf + 2, sizeof buf - 2, fmt, ap);
    va_end(ap);
    obs_append(buf);
}

void mc_outcome(const char *fmt, ...)
{
    va_list ap;
    va_start(ap, fmt);
    vsnprintf(g_rec->outcome, sizeof g_rec->outcome, fmt, ap);
    va_end(ap);
    g_rec->outcome_hash = hash_str(g_rec->outcome);
}

void mc_info(const char *key, const char *fmt, ...)
{
    if (!g_rec)
        return;
    for (int i = 0; i < g_rec->ninfo; i++)
        if (strcmp(g_rec->info_key[i], key) == 0)
            return;
    if (g_rec->ninfo >= 6)
        return;
    int i = g_rec->ninfo++;
    snprintf(g_rec->info_key[i], sizeof g_rec->info_key[i], "%s", key);
    va_list ap;
    va_start(ap, fmt);
    vsnprintf(g_rec->info_text[i], sizeof g_rec->info_text[i], fmt, ap);
    va_end(ap);
    if (mc_verbose()) {
        char b[300];
        snprintf(b, sizeof b, "INFO %s: %s", key, g_rec->info_text[i]);
        obs_append(b);
    }
}

void mc_count(int idx, int64_t d)
{
    if (g_rec && idx >= 0 && idx < MC_NCOUNTERS)
        g_rec->counters[idx] += d;
}

void mc_set_state_fn(uint64_t (*fn)(void)) { g_state_fn = fn; }

static void vviolation(const char *sig, const char *fmt, va_list ap)
{
    if (!g_rec)
        return;
    for (int i = 0; i < g_rec->nviol; i++)
        if (strcmp(g_rec->viol[i].signature, sig) == 0)
            return;
    if (g_rec->nviol >= MC_MAX_VIOL)
        return;
    struct mc_viol *v = &g_rec->viol[g_rec->nviol++];
    snprintf(v->signature, sizeof v->signature, "%s", sig);
    vsnprintf(v->text, sizeof v->text, fmt, ap);
    g_rec->verdict = MC_VIOLATION;
    if (g_rec->verbose) {
        char b[1700];
        snprintf(b, sizeof b, "VIOLATION %s: %s", sig, v->text);
        obs_append(b);
    }
}

void mc_violation(const char *sig, const char *fmt, ...)
{
    va_list ap;
    va_start(ap, fmt);
    vviolation(sig, fmt, ap);
    va_end(ap);
}

void mc_finish(void)
{
    if (g_rec) {
        g_rec->final_state_hash = g_state_fn ? g_state_fn() : g_obs_hash;
        if (!g_rec->outcome_hash)
            g_rec->outcome_hash = g_obs_hash;
        g_rec->done = 1;
    }
    _exit(0);
}

void mc_fail(const char *sig, const char *fmt, ...)
{
    va_list ap;
    va_start(ap, fmt);
    vviolation(sig, fmt, ap);
    va_end(ap);
    mc_finish();
}

static void mc_internal(const char *what)
{
    if (g_rec) {
        g_rec->verdict = MC_INTERNAL;
        snprintf(g_rec->viol[0].signature, sizeof g_rec->viol[0].signature, "internal/%s", what);
        snprintf(g_rec->viol[0].text, sizeof g_rec->viol[0].text, "%s", what);
        g_rec->nviol = 1;
        g_rec->done = 1;
    }
    _exit(0);
}

static int intern_label(const char *l)
{
    for (int i = 0; i < g_rec->nlabels; i++)
        if (strncmp(g_rec->labels[i], l, MC_LABEL_LEN - 1) == 0)
            return i;
    if (g_rec->nlabels >= MC_MAX_LABELS)
        return 0;
    snprintf(g_rec->labels[g_rec->nlabels], MC_LABEL_LEN, "%s", l);
    return g_rec->nlabels++;
}

int mc_choose_mask(int n, enum mc_kind kind, const char *label, unsigned costmask)
{
    if (n <= 1 || !g_rec)
        return 0;
    if (n > 16)
        n = 16;
    int idx = g_rec->npoints;
    if (idx >= MC_MAX_POINTS)
        mc_internal("too-many-choice-points");
    struct mc_point *p = &g_rec->points[idx];
    p->n = n;
    p->kind = kind;
    p->label = intern_label(label);
    p->costmask = costmask;
    uint64_t ph = idx ? g_rec->point_hash[idx - 1] : 1;
    ph = mc_hash_mix(ph, ((uint64_t)n << 8) | kind);
    ph = mc_hash_mix(ph, hash_str(label));
    g_rec->point_hash[idx] = ph;
    g_rec->state_hash[idx] = g_state_fn ? g_state_fn() : g_obs_hash;
    int c = 0;
    if (idx < g_rec->prefix_len) {
        c = g_rec->prefix[idx];
        if (c >= n) {
            g_rec->npoints = idx + 1;
            g_rec->verdict = MC_DIVERGED;
            g_rec->done = 1;
            _exit(0);
        }
    }
    p->chosen = c;
    g_rec->cost_used += (costmask >> c) & 1;
    g_rec->npoints = idx + 1;
    g_obs_hash = mc_hash_mix(g_obs_hash, (uint64_t)c + 1000 * (uint64_t)p->label);
    if (g_rec->verbose) {
        char b[160];
        snprintf(b, sizeof b, "  [choice %d] %s -> %d of %d%s", idx, label, c, n,
                 c ? ((costmask >> c) & 1 ? " (deviation)" : " (free)") : "");
        obs_append(b);
    }
    return c;
}

int mc_choose(int n, enum mc_kind kind, const char *label)
{
    return mc_choose_mask(n, kind, label, 0xfffe);
}

/* ===================================================================================== */
/* Scheduler                                                                             */
/* ===================================================================================== */
enum { T_NEW, T_READY, T_WAITFD, T_BLOCKPOLL, T_DONE, T_WAITCOND /* additive, C15: mc_wait_cond */ };

struct task {
    char name[24];
    mc_task_fn fn;
    void *arg;
    pthread_t th;
    sem_t sem;
    int state;
    int yielded;
    int progressed_in_step;   /* mc_set_progress(1) was called since the task was last scheduled */
    int wait_fd;
    struct pollfd *pfds;
    int npfds;
    int64_t deadline_ns;
    int skip_point;
    const char *label;
    char api[64];
    int api_nb;
    int steps;
    int polls_in_api;
    int (*cond_fn)(void *);     /* T_WAITCOND: enabled when cond_fn(cond_arg) != 0 */
    void *cond_arg;
};

struct event {
    char name[32];
    int (*enabled)(void *);
    void (*fire)(void *);
    void *arg;
};

#define MAX_TASKS 8
#define MAX_EVENTS 24
static struct task g_tasks[MAX_TASKS];
static int g_ntasks;
static struct event g_events[MAX_EVENTS];
static int g_nevents;
static sem_t g_sched_sem;
static int g_cur = -1;
static int g_running;          /* inside mc_run */
static int g_steps;
static __thread int tl_task = -1;

__attribute__((weak)) int64_t mc_env_now_ns(void) { return 0; }

int mc_steps(void) { return g_steps; }
bool mc_in_task(void) { return tl_task >= 0; }
int mc_cur_task(void) { return tl_task; }
const char *mc_cur_task_name(void) { return tl_task >= 0 ? g_tasks[tl_task].name : ""; }
void mc_enable_signals(int on) { g_signals = on; }
bool mc_task_done(int t) { return g_tasks[t].state == T_DONE; }

static char g_api[64];
static int g_api_nb;

void mc_api_begin(const char *api, int nonblocking)
{
    if (tl_task < 0) {
        snprintf(g_api, sizeof g_api, "%s", api);
        g_api_nb = nonblocking;
    }
    if (tl_task >= 0) {
        snprintf(g_tasks[tl_task].api, sizeof g_tasks[tl_task].api, "%s", api);
        g_tasks[tl_task].api_nb = nonblocking;
        g_tasks[tl_task].polls_in_api = 0;
    }
    if (g_rec)
        snprintf(g_rec->cur_api, sizeof g_rec->cur_api, "%s", api);
}

void mc_api_end(void)
{
    if (tl_task < 0) {
        g_api[0] = 0;
        g_api_nb = 0;
    }
    if (tl_task >= 0) {
        g_tasks[tl_task].api[0] = 0;
        g_tasks[tl_task].api_nb = 0;
    }
    if (g_rec)
        g_rec->cur_api[0] = 0;
}

const char *mc_cur_api(void)
{
    if (tl_task >= 0)
        return g_tasks[tl_task].api;
    return g_api;
}

const char *mc_last_api(void) { return g_rec ? g_rec->cur_api : ""; }

int mc_cur_api_nonblocking(void) { return tl_task >= 0 ? g_tasks[tl_task].api_nb : g_api_nb; }

int mc_tasks_unfinished(void)
{
    int n = 0;
    for (int i = 0; i < g_ntasks; i++)
        if (g_tasks[i].state != T_DONE)
            n++;
    return n;
}

static void sem_wait_nointr(sem_t *s)
{
    while (sem_wait(s) < 0 && errno == EINTR)
        ;
}

static void *task_main(void *arg)
{
    struct task *t = arg;
    tl_task = (int)(t - g_tasks);
    sem_wait_nointr(&t->sem);
    t->fn(t->arg);
    t->state = T_DONE;
    sem_post(&g_sched_sem);
    return NULL;
}

int mc_task_create(const char *name, mc_task_fn fn, void *arg)
{
    if (g_ntasks >= MAX_TASKS)
        mc_internal("too-many-tasks");
    struct task *t = &g_tasks[g_ntasks];
    memset(t, 0, sizeof *t);
    snprintf(t->name, sizeof t->name, "%s", name);
    t->fn = fn;
    t->arg = arg;
    t->state = T_NEW;
    t->wait_fd = -1;
    sem_init(&t->sem, 0, 0);
    pthread_attr_t at;
    pthread_attr_init(&at);
    pthread_attr_setstacksize(&at, 1 << 20);
    if (pthread_create(&t->th, &at, task_main, t) != 0)
        mc_internal("pthread_create");
    pthread_attr_destroy(&at);
    return g_ntasks++;
}

int mc_event_create(const char *name, int (*enabled)(void *), void (*fire)(void *), void *arg)
{
    if (g_nevents >= MAX_EVENTS)
        mc_internal("too-many-events");
    struct event *e = &g_events[g_nevents];
    snprintf(e->name, sizeof e->name, "%s", name);
    e->enabled = enabled;
    e->fire = fire;
    e->arg = arg;
    return g_nevents++;
}

static void switch_to_sched(struct task *t)
{
    sem_post(&g_sched_sem);
    sem_wait_nointr(&t->sem);
}

void mc_sched_point(const char *label)
{
    if (tl_task < 0 || !g_running)
        return;
    struct task *t = &g_tasks[tl_task];
    if (t->skip_point) {
        t->skip_point = 0;
        return;
    }
    t->state = T_READY;
    t->label = label;
    switch_to_sched(t);
}

void mc_wait_readable(int fd, const char *label)
{
    if (tl_task < 0 || !g_running)
        return;
    struct task *t = &g_tasks[tl_task];
    t->state = T_WAITFD;
    t->wait_fd = fd;
    t->label = label;
    switch_to_sched(t);
    t->skip_point = 1;
}

/* additive (C15): the calling task is disabled until enabled(arg) returns non-zero (a modelled
   lock held by another task, a condition variable).  "Nobody enabled" with such a task left over
   is quiescence, i.e. a deadlock verdict for the harness to report. */
void mc_wait_cond(int (*enabled)(void *), void *arg, const char *label)
{
    if (tl_task < 0 || !g_running)
        return;
    struct task *t = &g_tasks[tl_task];
    t->state = T_WAITCOND;
    t->cond_fn = enabled;
    t->cond_arg = arg;
    t->label = label;
    switch_to_sched(t);
}

void mc_set_progress(int progressed)
{
    if (tl_task >= 0) {
        g_tasks[tl_task].yielded = !progressed;
        if (progressed)
            g_tasks[tl_task].progressed_in_step = 1;
    }
}

int mc_block_poll(struct pollfd *fds, int nfds, int timeout_ms)
{
    struct task *t = &g_tasks[tl_task];
    if (g_signals) {
        char lb[MC_LABEL_LEN];
        snprintf(lb, sizeof lb, "signal@%s:%s", t->name, t->api[0] ? t->api : "wait");
        if (mc_choose(2, MC_SIGNAL, lb) == 1) {
            errno = EINTR;
            return -1;
        }
    }
    /* a second wait inside the same blocking call means the previous wake-up did not complete it:
       the task yielded (fairness: whoever can end the wait goes first) */
    if (t->polls_in_api++ > 0)
        t->yielded = 1;
    t->state = T_BLOCKPOLL;
    t->pfds = fds;
    t->npfds = nfds;
    t->deadline_ns = timeout_ms < 0 ? -1 : mc_env_now_ns() + (int64_t)timeout_ms * 1000000LL;
    t->label = "blocked";
    switch_to_sched(t);
    t->pfds = NULL;
    return poll(fds, nfds, 0);
}

/* next deadline of a task blocked in a poll with a finite timeout; -1 if none */
int64_t mc_next_poll_deadline_ns(void)
{
    int64_t best = -1;
    for (int i = 0; i < g_ntasks; i++) {
        struct task *t = &g_tasks[i];
        if (t->state == T_BLOCKPOLL && t->deadline_ns >= 0 && (best < 0 || t->deadline_ns < best))
            best = t->deadline_ns;
    }
    return best;
}

static int task_enabled(struct task *t)
{
    switch (t->state) {
    case T_NEW:
    case T_READY:
        return 1;
    case T_WAITFD: {
        struct pollfd p = { .fd = t->wait_fd, .events = POLLIN };
        int rc = poll(&p, 1, 0);
        return rc > 0 && (p.revents & (POLLIN | POLLERR | POLLHUP | POLLNVAL));
    }
    case T_BLOCKPOLL: {
        struct pollfd tmp[8];
        int n = t->npfds > 8 ? 8 : t->npfds;
        memcpy(tmp, t->pfds, n * sizeof tmp[0]);
        if (poll(tmp, n, 0) > 0)
            return 1;
        if (t->deadline_ns >= 0 && mc_env_now_ns() >= t->deadline_ns)
            return 1;
        return 0;
    }
    case T_WAITCOND:
        return t->cond_fn && t->cond_fn(t->cond_arg) != 0;
    default:
        return 0;
    }
}

enum mc_end mc_run(int horizon)
{
    sem_init(&g_sched_sem, 0, 0);
    g_running = 1;
    int rr = 0;
    for (;;) {
        if (g_steps++ > horizon) {
            g_running = 0;
            if (g_rec)
                g_rec->steps = g_steps;
            return MC_END_HORIZON;
        }
        /* enabled sets */
        int order[MAX_TASKS + MAX_EVENTS], is_event[MAX_TASKS + MAX_EVENTS], n = 0;
        int en[MAX_TASKS], any_task = 0, cur_enabled = 0;
        for (int i = 0; i < g_ntasks; i++) {
            en[i] = task_enabled(&g_tasks[i]);
            any_task |= en[i];
        }
        if (g_cur >= 0 && en[g_cur])
            cur_enabled = 1;
        /* A: enabled, not yielded: current first */
        if (cur_enabled && !g_tasks[g_cur].yielded) {
            order[n] = g_cur;
            is_event[n++] = 0;
        }
        for (int i = 0; i < g_ntasks; i++)
            if (en[i] && !g_tasks[i].yielded && i != g_cur) {
                order[n] = i;
                is_event[n++] = 0;
            }
        /* B: events */
        for (int i = 0; i < g_nevents; i++)
            if (g_events[i].enabled(g_events[i].arg)) {
                order[n] = i;
                is_event[n++] = 1;
            }
        /* C: yielded tasks, round robin */
        for (int k = 0; k < g_ntasks; k++) {
            int i = (rr + k) % g_ntasks;
            if (en[i] && g_tasks[i].yielded) {
                order[n] = i;
                is_event[n++] = 0;
            }
        }
        if (n == 0)
            break;
        int pick = 0;
        if (n > 1) {
            unsigned mask = 0;
            for (int k = 1; k < n && k < 16; k++) {
                int costs;
                if (cur_enabled)
                    costs = 1;
                else if (is_event[k])
                    costs = any_task ? 1 : 0;
                else
                    costs = 0;
                if (costs)
                    mask |= 1u << k;
            }
            char lb[MC_LABEL_LEN];
            snprintf(lb, sizeof lb, "sched:%s>%s", g_cur >= 0 ? g_tasks[g_cur].name : "-",
                     is_event[0] ? g_events[order[0]].name : g_tasks[order[0]].name);
            pick = mc_choose_mask(n, MC_SCHED, lb, mask);
        }
        if (is_event[pick]) {
            struct event *e = &g_events[order[pick]];
            if (mc_verbose()) {
                char b[96];
                snprintf(b, sizeof b, "EVENT %s", e->name);
                obs_append(b);
            }
            g_obs_hash = mc_hash_mix(g_obs_hash, hash_str(e->name));
            e->fire(e->arg);
            for (int i = 0; i < g_ntasks; i++)
                g_tasks[i].yielded = 0;
        } else {
            int ti = order[pick];
            struct task *t = &g_tasks[ti];
            if (t->yielded)
                rr = (ti + 1) % g_ntasks;
            g_cur = ti;
            t->state = T_READY;
            t->progressed_in_step = 0;
            t->steps++;
            if (g_rec)
                snprintf(g_rec->cur_task, sizeof g_rec->cur_task, "%s", t->name);
            sem_post(&t->sem);
            sem_wait_nointr(&g_sched_sem);
            /* the others get a fresh chance only when this step changed something: two tasks that merely
               wake each other up (each step ends in EAGAIN) must not starve the environment events that
               could end their wait (Musuvathi-Qadeer fairness; met with two ends spinning on partial TLS
               records while both are write-stalled) */
            if (t->progressed_in_step || t->state == T_DONE)
                for (int i = 0; i < g_ntasks; i++)
                    if (i != ti)
                        g_tasks[i].yielded = 0;
        }
    }
    g_running = 0;
    if (g_rec)
        g_rec->steps = g_steps;
    return mc_tasks_unfinished() ? MC_END_QUIESCENT : MC_END_DONE;
}

/* ===================================================================================== */
/* Explorer                                                                              */
/* ===================================================================================== */
#define STACK_BYTES (192u << 20)
#define TBL_BITS 25
#define TBL_SIZE (1u << TBL_BITS)
#define MAX_SHV 96
#define MAX_SHI 48
#define MAX_SAMPLES 8

struct sh_viol {
    char signature[200];
    char text[1400];
    int len;
    int cost;
    int count;
    int verified;      /* 1 = reproduced twice with identical outcome, -1 = not reproducible */
    int crash;
    uint8_t choices[MC_MAX_POINTS];
    char labels_json[6000];
};

struct sh_info {
    char key[64];
    char text[200];
    int count;
};

struct shared {
    pthread_mutex_t lock;
    volatile int busy, stop, deadline_hit, broken;
    char broken_text[400];
    size_t top;
    uint64_t executions, exec_level, points_total, max_points, crashes;
    uint64_t nstates, ntrans, noutcomes, tbl_full;
    int64_t counters[MC_NCOUNTERS];
    int nviol;
    struct sh_viol viol[MAX_SHV];
    int ninfo;
    struct sh_info info[MAX_SHI];
    int nsamples;
    char samples[MAX_SAMPLES][1200];
    uint64_t tbl[TBL_SIZE];
    uint8_t stack[STACK_BYTES];
};

struct item_hdr {
    uint16_t len;
    uint8_t cost, pad;
    uint64_t expect;
};

static struct shared *S;
static const char *g_params = "";
static void (*g_scenario)(const char *);
static double g_deadline;
static int g_bound;

static double now_s(void)
{
    struct timespec ts;
    clock_gettime(CLOCK_REALTIME, &ts);      /* CLOCK_MONOTONIC is virtual inside harnesses */
    return ts.tv_sec + ts.tv_nsec / 1e9;
}

static int tbl_insert(uint64_t h)
{
    if (h == 0)
        h = 1;
    uint32_t i = (uint32_t)(h >> 7) & (TBL_SIZE - 1);
    for (int probe = 0; probe < 64; probe++) {
        uint64_t cur = __atomic_load_n(&S->tbl[i], __ATOMIC_RELAXED);
        if (cur == h)
            return 0;
        if (cur == 0) {
            uint64_t exp = 0;
            if (__atomic_compare_exchange_n(&S->tbl[i], &exp, h, 0, __ATOMIC_RELAXED, __ATOMIC_RELAXED))
                return 1;
            if (exp == h)
                return 0;
        }
        i = (i + 1) & (TBL_SIZE - 1);
    }
    __atomic_fetch_add(&S->tbl_full, 1, __ATOMIC_RELAXED);
    return 0;
}

static void push_item(const uint8_t *choices, int len, int cost, uint64_t expect)
{
    size_t need = sizeof(struct item_hdr) + len + sizeof(uint32_t);
    if (S->top + need > STACK_BYTES) {
        S->broken = 1;
        snprintf(S->broken_text, sizeof S->broken_text, "explorer work stack overflow");
        return;
    }
    struct item_hdr h = { .len = len, .cost = cost, .expect = expect };
    memcpy(S->stack + S->top, &h, sizeof h);
    memcpy(S->stack + S->top + sizeof h, choices, len);
    uint32_t sz = need;
    memcpy(S->stack + S->top + sizeof h + len, &sz, sizeof sz);
    S->top += need;
}

static int pop_item(uint8_t *choices, struct item_hdr *h)
{
    if (S->top == 0)
        return 0;
    uint32_t sz;
    memcpy(&sz, S->stack + S->top - sizeof sz, sizeof sz);
    S->top -= sz;
    memcpy(h, S->stack + S->top, sizeof *h);
    memcpy(choices, S->stack + S->top + sizeof *h, h->len);
    return 1;
}

static const char *signame(int s)
{
    switch (s) {
    case SIGABRT: return "SIGABRT";
    case SIGSEGV: return "SIGSEGV";
    case SIGBUS: return "SIGBUS";
    case SIGFPE: return "SIGFPE";
    case SIGILL: return "SIGILL";
    case SIGPIPE: return "SIGPIPE";
    case SIGKILL: return "SIGKILL";
    case SIGALRM: return "SIGALRM(watchdog)";
    default: return "SIG?";
    }
}

/* run one execution in a forked child; returns wait status */
static int run_child(struct mc_rec *rec, const uint8_t *prefix, int len, int verbose,
                     const char *stderr_path)
{
    rec->prefix_len = len;
    memcpy(rec->prefix, prefix, len);
    rec->verbose = verbose;
    rec->bound = g_bound;
    /* clear outputs (cheaply) */
    rec->done = 0;
    rec->verdict = MC_OK;
    rec->nviol = 0;
    rec->npoints = 0;
    rec->cost_used = 0;
    rec->final_state_hash = 0;
    rec->outcome_hash = 0;
    rec->outcome[0] = 0;
    memset(rec->counters, 0, sizeof rec->counters);
    rec->ninfo = 0;
    rec->nlabels = 0;
    rec->cur_api[0] = 0;
    rec->cur_task[0] = 0;
    rec->steps = 0;
    rec->obs_len = 0;
    rec->obs[0] = 0;
    pid_t pid = fork();
    if (pid < 0)
        return -1;
    if (pid == 0) {
        if (stderr_path) {
            int fd = open(stderr_path, O_WRONLY | O_CREAT | O_TRUNC, 0644);
            if (fd >= 0) {
                dup2(fd, 2);
                close(fd);
            }
        } else {
            int fd = open("/dev/null", O_WRONLY);
            if (fd >= 0) {
                dup2(fd, 2);
                dup2(fd, 1);
                close(fd);
            }
        }
        alarm(verbose ? 120 : 60);      /* watchdog: a real hang of the code under test */
        g_rec = rec;
        g_scenario(g_params);
        mc_finish();
    }
    int st = 0;
    while (waitpid(pid, &st, 0) < 0 && errno == EINTR)
        ;
    return st;
}

static void json_escape(FILE *f, const char *s)
{
    fputc('"', f);
    for (; *s; s++) {
        unsigned char c = *s;
        if (c == '"' || c == '\\')
            fprintf(f, "\\%c", c);
        else if (c == '\n')
            fputs("\\n", f);
        else if (c == '\t')
            fputs("\\t", f);
        else if (c < 0x20 || c >= 0x7f)
            fprintf(f, "\\u%04x", c);
        else
            fputc(c, f);
    }
    fputc('"', f);
}

static void labels_to_json(struct mc_rec *rec, char *out, size_t cap)
{
    /* non-default choices with labels: [[idx,"label",alt],...] */
    size_t o = 0;
    o += snprintf(out + o, cap - o, "[");
    int first = 1;
    for (int i = 0; i < rec->npoints && o + 120 < cap; i++) {
        if (!rec->points[i].chosen)
            continue;
        o += snprintf(out + o, cap - o, "%s[%d,\"%s\",%d]", first ? "" : ",", i,
                      rec->labels[rec->points[i].label], rec->points[i].chosen);
        first = 0;
    }
    snprintf(out + o, cap - o, "]");
}

static char g_outpath[512];

static void record_violation(struct mc_rec *rec, const char *sig, const char *text, int crash,
                             const uint8_t *choices, int len, int cost, int wid)
{
    pthread_mutex_lock(&S->lock);
    int idx = -1;
    for (int i = 0; i < S->nviol; i++)
        if (strcmp(S->viol[i].signature, sig) == 0) {
            idx = i;
            break;
        }
    if (idx >= 0) {
        S->viol[idx].count++;
        pthread_mutex_unlock(&S->lock);
        return;
    }
    if (S->nviol >= MAX_SHV) {
        pthread_mutex_unlock(&S->lock);
        return;
    }
    idx = S->nviol++;
    struct sh_viol *v = &S->viol[idx];
    snprintf(v->signature, sizeof v->signature, "%s", sig);
    snprintf(v->text, sizeof v->text, "%s", text);
    v->len = len;
    v->cost = cost;
    v->count = 1;
    v->crash = crash;
    v->verified = 0;
    memcpy(v->choices, choices, len);
    pthread_mutex_unlock(&S->lock);

    /* replay twice (verbose) from the full choice list: must reproduce */
    uint8_t full[MC_MAX_POINTS];
    int flen = rec->npoints;
    for (int i = 0; i < flen; i++)
        full[i] = rec->points[i].chosen;
    uint64_t oh[2] = { 0, 0 };
    int same = 1;
    char errp[600], logp[600];
    snprintf(errp, sizeof errp, "%s.viol%d.stderr", g_outpath, idx);
    snprintf(logp, sizeof logp, "%s.viol%d.log", g_outpath, idx);
    /* note: rec is this worker's record; it is overwritten by the replays */
    for (int r = 0; r < 2; r++) {
        int st = run_child(rec, full, flen, 1, errp);
        int crashed = !(WIFEXITED(st) && WEXITSTATUS(st) == 0 && rec->done);
        int found = 0;
        if (crash)
            found = crashed;
        else
            for (int i = 0; i < rec->nviol; i++)
                if (strcmp(rec->viol[i].signature, sig) == 0)
                    found = 1;
        if (!found)
            same = 0;
        oh[r] = mc_hash_mix(rec->outcome_hash, rec->npoints);
        if (r == 1) {
            FILE *f = fopen(logp, "w");
            if (f) {
                fwrite(rec->obs, 1, rec->obs_len, f);
                fclose(f);
            }
            labels_to_json(rec, v->labels_json, sizeof v->labels_json);
            v->len = rec->npoints < flen ? rec->npoints : flen;
            memcpy(v->choices, full, v->len);
        }
    }
    if (oh[0] != oh[1])
        same = 0;
    v->verified = same ? 1 : -1;
    (void)wid;
}

static void worker(int wid, struct mc_rec *rec)
{
    uint8_t choices[MC_MAX_POINTS];
    struct item_hdr h;
    /* one CPU per worker: the child's cooperative threads hand off on the same CPU instead of
       waking each other across (virtual) CPUs */
    /* worker isolation (DESIGN 1.3): abstract AF_UNIX names (UX sockets, the UX leg of utls) live in the
       network namespace and are therefore shared by every process of the machine; a private namespace per
       worker means that executions of different workers - and of other checks running at the same time -
       can never meet.  Needs CAP_SYS_ADMIN; when it is refused the per-pid names are all there is. */
    if (!getenv("MCX_NO_NETNS"))
        (void)unshare(CLONE_NEWNET);
    long ncpu = sysconf(_SC_NPROCESSORS_ONLN);
    if (ncpu > 0 && !getenv("MCX_NO_PIN")) {
        cpu_set_t cs;
        CPU_ZERO(&cs);
        CPU_SET(wid % ncpu, &cs);
        sched_setaffinity(0, sizeof cs, &cs);
    }
    for (;;) {
        if (S->stop)
            break;
        if (now_s() > g_deadline) {
            S->deadline_hit = 1;
            S->stop = 1;
            break;
        }
        pthread_mutex_lock(&S->lock);
        int got = pop_item(choices, &h);
        if (got)
            S->busy++;
        int busy = S->busy;
        pthread_mutex_unlock(&S->lock);
        if (!got) {
            if (busy == 0)
                break;
            usleep(200);
            continue;
        }
        int st = run_child(rec, choices, h.len, 0, NULL);
        int crashed = !(WIFEXITED(st) && WEXITSTATUS(st) == 0 && rec->done);
        __atomic_fetch_add(&S->executions, 1, __ATOMIC_RELAXED);
        __atomic_fetch_add(&S->exec_level, 1, __ATOMIC_RELAXED);
        /* divergence check */
        int harness_internal = rec->verdict == MC_INTERNAL ||
            (rec->nviol > 0 && strncmp(rec->viol[0].signature, "internal/", 9) == 0);
        if (harness_internal && rec->verdict != MC_INTERNAL) {
            /* a harness set-up failure (mc_fail("internal/...")) is reported as what it is, not as the replay
               divergence it also causes */
            pthread_mutex_lock(&S->lock);
            if (!S->broken) {
                S->broken = 1;
                snprintf(S->broken_text, sizeof S->broken_text, "harness set-up failure %s: %s",
                         rec->viol[0].signature, rec->viol[0].text);
            }
            S->busy--;
            S->stop = 1;
            pthread_mutex_unlock(&S->lock);
            break;
        }
        if (h.len > 0 && !crashed && !harness_internal &&
            (rec->verdict == MC_DIVERGED || rec->npoints < h.len ||
             rec->point_hash[h.len - 1] != h.expect)) {
            pthread_mutex_lock(&S->lock);
            if (!S->broken) {
                S->broken = 1;
                size_t o = snprintf(S->broken_text, sizeof S->broken_text,
                                    "replay divergence at prefix len %d (npoints %d): ", h.len, rec->npoints);
                for (int i = 0; i < h.len && o + 6 < sizeof S->broken_text; i++)
                    o += snprintf(S->broken_text + o, sizeof S->broken_text - o, "%d,", choices[i]);
            }
            S->busy--;
            S->stop = 1;
            pthread_mutex_unlock(&S->lock);
            break;
        }
        if (rec->verdict == MC_INTERNAL) {
            pthread_mutex_lock(&S->lock);
            if (!S->broken) {
                S->broken = 1;
                snprintf(S->broken_text, sizeof S->broken_text, "harness internal error: %s",
                         rec->viol[0].text);
            }
            S->busy--;
            S->stop = 1;
            pthread_mutex_unlock(&S->lock);
            break;
        }
        /* statistics */
        int np = rec->npoints;
        __atomic_fetch_add(&S->points_total, np, __ATOMIC_RELAXED);
        if ((uint64_t)np > S->max_points)
            S->max_points = np;
        uint64_t ns = 0, nt = 0;
        for (int i = 0; i < np; i++) {
            ns += tbl_insert(mc_hash_mix(0x51, rec->state_hash[i]));
            uint64_t next = i + 1 < np ? rec->state_hash[i + 1] : rec->final_state_hash;
            nt += tbl_insert(mc_hash_mix(mc_hash_mix(mc_hash_mix(0x77, rec->state_hash[i]),
                                                     rec->points[i].chosen + 1), next));
        }
        ns += tbl_insert(mc_hash_mix(0x51, rec->final_state_hash));
        __atomic_fetch_add(&S->nstates, ns, __ATOMIC_RELAXED);
        __atomic_fetch_add(&S->ntrans, nt, __ATOMIC_RELAXED);
        if (!crashed && tbl_insert(mc_hash_mix(0x99, rec->outcome_hash)))
            __atomic_fetch_add(&S->noutcomes, 1, __ATOMIC_RELAXED);
        for (int i = 0; i < MC_NCOUNTERS; i++)
            if (rec->counters[i])
                __atomic_fetch_add(&S->counters[i], rec->counters[i], __ATOMIC_RELAXED);
        /* expand: alternatives at every point at or after the prefix */
        if (!crashed || np >= h.len) {
            pthread_mutex_lock(&S->lock);
            uint8_t child[MC_MAX_POINTS];
            for (int i = 0; i < np; i++)
                child[i] = rec->points[i].chosen;
            for (int i = np - 1; i >= h.len; i--) {
                struct mc_point *p = &rec->points[i];
                for (int alt = p->n - 1; alt >= 1; alt--) {
                    int cost = h.cost + ((p->costmask >> alt) & 1);
                    if (cost > g_bound)
                        continue;
                    uint8_t save = child[i];
                    child[i] = alt;
                    push_item(child, i + 1, cost, rec->point_hash[i]);
                    child[i] = save;
                }
            }
            pthread_mutex_unlock(&S->lock);
        }
        /* infos */
        if (rec->ninfo) {
            pthread_mutex_lock(&S->lock);
            for (int k = 0; k < rec->ninfo; k++) {
                int f = -1;
                for (int i = 0; i < S->ninfo; i++)
                    if (strcmp(S->info[i].key, rec->info_key[k]) == 0)
                        f = i;
                if (f < 0 && S->ninfo < MAX_SHI) {
                    f = S->ninfo++;
                    snprintf(S->info[f].key, sizeof S->info[f].key, "%s", rec->info_key[k]);
                    snprintf(S->info[f].text, sizeof S->info[f].text, "%s", rec->info_text[k]);
                    S->info[f].count = 0;
                }
                if (f >= 0)
                    S->info[f].count++;
            }
            pthread_mutex_unlock(&S->lock);
        }
        /* samples */
        if (S->nsamples < MAX_SAMPLES && (wid == 0 || h.len == 0)) {
            pthread_mutex_lock(&S->lock);
            if (S->nsamples < MAX_SAMPLES) {
                char *o = S->samples[S->nsamples++];
                size_t cap = sizeof S->samples[0], n = 0;
                n += snprintf(o + n, cap - n, "points=%d deviations=%d outcome={%s} non-default:", np,
                              rec->cost_used, rec->outcome);
                for (int i = 0; i < np && n + 80 < cap; i++)
                    if (rec->points[i].chosen)
                        n += snprintf(o + n, cap - n, " #%d %s=%d", i, rec->labels[rec->points[i].label],
                                      rec->points[i].chosen);
            }
            pthread_mutex_unlock(&S->lock);
        }
        /* verdicts */
        if (crashed) {
            __atomic_fetch_add(&S->crashes, 1, __ATOMIC_RELAXED);
            char sig[200], text[400];
            const char *how = WIFSIGNALED(st) ? signame(WTERMSIG(st)) : "exit";
            snprintf(sig, sizeof sig, "crash/%s/in=%s", how, rec->cur_api[0] ? rec->cur_api : "harness");
            snprintf(text, sizeof text, "process died (%s, status 0x%x) in task %s during %s after %d choice points",
                     how, st, rec->cur_task, rec->cur_api[0] ? rec->cur_api : "(no API call)", np);
            uint8_t full[MC_MAX_POINTS];
            for (int i = 0; i < np; i++)
                full[i] = rec->points[i].chosen;
            record_violation(rec, sig, text, 1, full, np, rec->cost_used, wid);
        } else if (rec->nviol) {
            struct mc_viol vv[MC_MAX_VIOL];
            int nv = rec->nviol;
            memcpy(vv, rec->viol, sizeof vv);
            uint8_t full[MC_MAX_POINTS];
            for (int i = 0; i < np; i++)
                full[i] = rec->points[i].chosen;
            int cu = rec->cost_used;
            for (int k = 0; k < nv; k++) {
                /* record_violation replays and overwrites rec: restore the choice list first */
                rec->npoints = np;
                for (int i = 0; i < np; i++)
                    rec->points[i].chosen = full[i];
                record_violation(rec, vv[k].signature, vv[k].text, 0, full, np, cu, wid);
            }
        }
        pthread_mutex_lock(&S->lock);
        S->busy--;
        pthread_mutex_unlock(&S->lock);
    }
}

static struct mc_rec *alloc_rec(void)
{
    void *p = mmap(NULL, sizeof(struct mc_rec), PROT_READ | PROT_WRITE, MAP_SHARED | MAP_ANONYMOUS, -1, 0);
    return p == MAP_FAILED ? NULL : p;
}

static int parse_choices(const char *s, uint8_t *out)
{
    int n = 0;
    while (*s && n < MC_MAX_POINTS) {
        while (*s == ',' || *s == ' ' || *s == '[' || *s == ']')
            s++;
        if (!*s)
            break;
        out[n++] = (uint8_t)strtol(s, (char **)&s, 10);
    }
    return n;
}

static void print_rec(struct mc_rec *rec, int st)
{
    fwrite(rec->obs, 1, rec->obs_len, stdout);
    int crashed = !(WIFEXITED(st) && WEXITSTATUS(st) == 0 && rec->done);
    printf("---- points=%d deviations=%d steps=%d outcome={%s}\n", rec->npoints, rec->cost_used,
           rec->steps, rec->outcome);
    printf("choices:");
    for (int i = 0; i < rec->npoints; i++)
        printf("%s%d", i ? "," : " ", rec->points[i].chosen);
    printf("\n");
    if (crashed)
        printf("VERDICT crash status=0x%x during %s (task %s)\n", st, rec->cur_api, rec->cur_task);
    else if (rec->verdict == MC_DIVERGED)
        printf("VERDICT diverged\n");
    else if (rec->nviol)
        for (int i = 0; i < rec->nviol; i++)
            printf("VERDICT violation %s: %s\n", rec->viol[i].signature, rec->viol[i].text);
    else
        printf("VERDICT ok\n");
    for (int i = 0; i < rec->ninfo; i++)
        printf("INFO %s: %s\n", rec->info_key[i], rec->info_text[i]);
}

int mc_main(int argc, char **argv, void (*scenario)(const char *), void (*prime)(const char *))
{
    const char *mode = NULL, *out = NULL, *choices_s = NULL;
    int jobs = 16, bound = 1, single_bound = 0;
    double deadline = 3600;
    for (int i = 1; i < argc; i++) {
        if (!strcmp(argv[i], "--explore") || !strcmp(argv[i], "--single"))
            mode = argv[i];
        else if (!strcmp(argv[i], "--replay-choices") && i + 1 < argc) {
            mode = argv[i];
            choices_s = argv[++i];
        } else if (!strcmp(argv[i], "--params") && i + 1 < argc)
            g_params = argv[++i];
        else if (!strcmp(argv[i], "--bound") && i + 1 < argc)
            bound = atoi(argv[++i]);
        else if (!strcmp(argv[i], "--only-bound"))
            single_bound = 1;
        else if (!strcmp(argv[i], "--jobs") && i + 1 < argc)
            jobs = atoi(argv[++i]);
        else if (!strcmp(argv[i], "--deadline") && i + 1 < argc)
            deadline = atof(argv[++i]);
        else if (!strcmp(argv[i], "--out") && i + 1 < argc)
            out = argv[++i];
    }
    if (!mode) {
        fprintf(stderr, "usage: %s --explore|--single|--replay-choices L --params P [--bound D] [--jobs N] "
                        "[--deadline S] [--out F]\n", argv[0]);
        return 2;
    }
    g_scenario = scenario;
    signal(SIGPIPE, SIG_IGN);
    setvbuf(stdout, NULL, _IONBF, 0);
    if (prime)
        prime(g_params);

    if (strcmp(mode, "--explore") != 0) {
        struct mc_rec *rec = alloc_rec();
        uint8_t pre[MC_MAX_POINTS];
        int len = choices_s ? parse_choices(choices_s, pre) : 0;
        g_bound = 99;
        int st = run_child(rec, pre, len, 1, "/dev/stderr");
        print_rec(rec, st);
        int crashed = !(WIFEXITED(st) && WEXITSTATUS(st) == 0 && rec->done);
        return (crashed || rec->nviol) ? 1 : 0;
    }

    if (!out) {
        fprintf(stderr, "--out required\n");
        return 2;
    }
    snprintf(g_outpath, sizeof g_outpath, "%s", out);
    S = mmap(NULL, sizeof *S, PROT_READ | PROT_WRITE, MAP_SHARED | MAP_ANONYMOUS | MAP_NORESERVE, -1, 0);
    if (S == MAP_FAILED) {
        perror("mmap");
        return 2;
    }
    pthread_mutexattr_t ma;
    pthread_mutexattr_init(&ma);
    pthread_mutexattr_setpshared(&ma, PTHREAD_PROCESS_SHARED);
    pthread_mutex_init(&S->lock, &ma);
    double t0 = now_s();
    g_deadline = t0 + deadline;
    int completed = -1;
    uint64_t exec_per_level[16] = { 0 };
    if (jobs < 1)
        jobs = 1;
    if (jobs > 64)
        jobs = 64;
    for (int d = single_bound ? bound : 0; d <= bound; d++) {
        g_bound = d;
        S->top = 0;
        S->busy = 0;
        S->stop = 0;
        S->exec_level = 0;
        push_item(NULL, 0, 0, 0);
        pid_t pids[64];
        for (int w = 0; w < jobs; w++) {
            pid_t p = fork();
            if (p == 0) {
                struct mc_rec *rec = alloc_rec();
                if (!rec)
                    _exit(3);
                worker(w, rec);
                _exit(0);
            }
            pids[w] = p;
            if (w == 0)
                usleep(3000);    /* let the root execution populate the stack */
        }
        for (int w = 0; w < jobs; w++) {
            int st;
            while (waitpid(pids[w], &st, 0) < 0 && errno == EINTR)
                ;
            if (!(WIFEXITED(st) && WEXITSTATUS(st) == 0) && !S->broken) {
                S->broken = 1;
                snprintf(S->broken_text, sizeof S->broken_text, "explorer worker died, status 0x%x", st);
            }
        }
        if (d < 16)
            exec_per_level[d] = S->exec_level;
        if (S->broken || S->deadline_hit)
            break;
        completed = d;
    }
    double wall = now_s() - t0;
    FILE *f = fopen(out, "w");
    if (!f) {
        perror(out);
        return 2;
    }
    fprintf(f, "{\n \"params\": ");
    json_escape(f, g_params);
    fprintf(f, ",\n \"bound_requested\": %d,\n \"completed_bound\": %d,\n \"deadline_hit\": %s,\n", bound,
            completed, S->deadline_hit ? "true" : "false");
    fprintf(f, " \"executions\": %llu,\n \"states\": %llu,\n \"transitions\": %llu,\n \"distinct_outcomes\": %llu,\n",
            (unsigned long long)S->executions, (unsigned long long)S->nstates,
            (unsigned long long)S->ntrans, (unsigned long long)S->noutcomes);
    fprintf(f, " \"max_points\": %llu,\n \"points_total\": %llu,\n \"crashes\": %llu,\n \"hash_table_overflows\": %llu,\n",
            (unsigned long long)S->max_points, (unsigned long long)S->points_total,
            (unsigned long long)S->crashes, (unsigned long long)S->tbl_full);
    fprintf(f, " \"executions_per_level\": [");
    for (int d = 0; d <= bound && d < 16; d++)
        fprintf(f, "%s%llu", d ? "," : "", (unsigned long long)exec_per_level[d]);
    fprintf(f, "],\n \"counters\": [");
    for (int i = 0; i < MC_NCOUNTERS; i++)
        fprintf(f, "%s%lld", i ? "," : "", (long long)S->counters[i]);
    fprintf(f, "],\n \"wall_s\": %.2f,\n \"broken\": ", wall);
    if (S->broken)
        json_escape(f, S->broken_text);
    else
        fputs("null", f);
    fprintf(f, ",\n \"violations\": [");
    for (int i = 0; i < S->nviol; i++) {
        struct sh_viol *v = &S->viol[i];
        fprintf(f, "%s\n  {\"signature\": ", i ? "," : "");
        json_escape(f, v->signature);
        fprintf(f, ", \"text\": ");
        json_escape(f, v->text);
        fprintf(f, ", \"count\": %d, \"deviations\": %d, \"crash\": %s, \"reproduced\": %s, \"index\": %d, \"choices\": \"",
                v->count, v->cost, v->crash ? "true" : "false",
                v->verified == 1 ? "true" : "false", i);
        for (int k = 0; k < v->len; k++)
            fprintf(f, "%s%d", k ? "," : "", v->choices[k]);
        fprintf(f, "\", \"non_default\": %s}", v->labels_json[0] ? v->labels_json : "[]");
    }
    fprintf(f, "],\n \"infos\": [");
    for (int i = 0; i < S->ninfo; i++) {
        fprintf(f, "%s\n  {\"key\": ", i ? "," : "");
        json_escape(f, S->info[i].key);
        fprintf(f, ", \"text\": ");
        json_escape(f, S->info[i].text);
        fprintf(f, ", \"count\": %d}", S->info[i].count);
    }
    fprintf(f, "],\n \"samples\": [");
    for (int i = 0; i < S->nsamples; i++) {
        fprintf(f, "%s\n  ", i ? "," : "");
        json_escape(f, S->samples[i]);
    }
    fprintf(f, "]\n}\n");
    fclose(f);
    return S->broken ? 2 : 0;
}
