/* mcx - stateless exploration with iterative deviation bounding (DESIGN.md §1.3/§1.4).
 *
 * One *execution* = one forked child that runs a closed scenario under a cooperative
 * scheduler.  Every source of nondeterminism is a labelled choice point mc_choose();
 * alternative 0 is the default environment / default schedule, alternatives >= 1 are
 * deviations with a cost of 0 or 1.  The explorer (parent) enumerates every choice
 * sequence whose total cost is <= D.
 */
#ifndef MCX_H
#define MCX_H

#include <stdarg.h>
#include <stdbool.h>
#include <stddef.h>
#include <stdint.h>
#include <poll.h>

enum mc_kind { MC_SCHED = 0, MC_IO = 1, MC_FAULT = 2, MC_EVENT = 3, MC_SIGNAL = 4 };

enum mc_verdict {
    MC_OK = 0, MC_VIOLATION = 1, MC_DIVERGED = 2, MC_HORIZON = 3, MC_CRASH = 4,
    MC_INTERNAL = 5
};

/* ---- choice points ---------------------------------------------------------------- */
/* n alternatives, alternative i (i>=1) costs 1 iff bit i of costmask is set. */
int mc_choose_mask(int n, enum mc_kind kind, const char *label, unsigned costmask);
/* every alternative >= 1 costs one deviation */
int mc_choose(int n, enum mc_kind kind, const char *label);
/* true while a prefix is still being replayed */
bool mc_replaying(void);
/* budget left for deviations (explorer bound - cost used so far); lets the shim skip
   choice points that cannot be taken anyway (purely an optimisation: a point with no
   affordable alternative is equivalent to taking the default) */
int mc_budget_left(void);

/* ---- tasks, events, scheduler ---------------------------------------------------- */
typedef void (*mc_task_fn)(void *arg);
int  mc_task_create(const char *name, mc_task_fn fn, void *arg);
int  mc_event_create(const char *name, int (*enabled)(void *), void (*fire)(void *), void *arg);
/* scheduling point: the scheduler may run somebody else before this returns */
void mc_sched_point(const char *label);
/* event-loop wait: the calling task is disabled until poll(fd, POLLIN, 0) reports it */
void mc_wait_readable(int fd, const char *label);
/* a blocking poll made by a blocking-mode task (called from the shim's poll wrapper) */
int  mc_block_poll(struct pollfd *fds, int nfds, int timeout_ms);
/* (additive, C15) the calling task is disabled until enabled(arg) != 0: modelled mutexes, condition waits */
void mc_wait_cond(int (*enabled)(void *), void *arg, const char *label);
/* mark whether the step just made by the current task made progress (fairness) */
void mc_set_progress(int progressed);
/* name of the running task ("" when the scheduler itself runs) and its index (-1) */
const char *mc_cur_task_name(void);
int  mc_cur_task(void);
/* is the calling thread a task thread started by mc_task_create */
bool mc_in_task(void);
/* mark API call in progress (for crash signatures, the sleep monitor of C05) */
void mc_api_begin(const char *api, int nonblocking);
void mc_api_end(void);
const char *mc_cur_api(void);
const char *mc_last_api(void);   /* API call most recently begun and not ended, any task */
int  mc_cur_api_nonblocking(void);

enum mc_end { MC_END_DONE = 0, MC_END_QUIESCENT = 1, MC_END_HORIZON = 2 };
/* runs all tasks to completion / quiescence / horizon */
enum mc_end mc_run(int horizon_steps);
/* scheduler steps taken so far */
int mc_steps(void);
/* number of tasks not finished */
int mc_tasks_unfinished(void);
bool mc_task_done(int task);
/* enable the "signal" alternative (EINTR) at blocking polls */
void mc_enable_signals(int on);
/* environment-time hooks provided by the shim (weak defaults: no timers) */
int64_t mc_env_next_deadline_ns(void);

/* ---- observations, verdicts -------------------------------------------------------- */
void mc_observe(const char *fmt, ...) __attribute__((format(printf, 1, 2)));
void mc_trace(const char *fmt, ...) __attribute__((format(printf, 1, 2)));  /* verbose only, not hashed */
void mc_info(const char *key, const char *fmt, ...) __attribute__((format(printf, 2, 3)));
/* records a violation (distinct signatures, up to 4 per execution) and continues */
void mc_violation(const char *signature, const char *fmt, ...) __attribute__((format(printf, 2, 3)));
/* records a violation and ends the execution */
void mc_fail(const char *signature, const char *fmt, ...) __attribute__((format(printf, 2, 3), noreturn));
/* ends the execution normally (flushes the record) */
void mc_finish(void) __attribute__((noreturn));
/* harness counters aggregated (summed) over all executions by the explorer */
void mc_count(int idx, int64_t delta);
#define MC_NCOUNTERS 24
/* observable-state digest used for states/transitions statistics */
void mc_set_state_fn(uint64_t (*fn)(void));
uint64_t mc_hash_mix(uint64_t h, uint64_t v);
uint64_t mc_hash_bytes(uint64_t h, const void *p, size_t n);
/* outcome summary (distinct outcomes statistic) */
void mc_outcome(const char *fmt, ...) __attribute__((format(printf, 1, 2)));
bool mc_verbose(void);

/* ---- entry point --------------------------------------------------------------------- */
/* scenario(params) runs ONE execution and must end by returning (then mc_finish is called)
 * or through mc_fail/mc_finish.  prime(params), if not NULL, runs once in the explorer
 * before any fork.
 *
 * command line:
 *   <exe> --explore --params P --bound D [--jobs N] [--deadline S] --out FILE
 *   <exe> --replay-choices "1,0,2" --params P      (prints the observation log)
 *   <exe> --single --params P                      (default execution, verbose)
 */
int mc_main(int argc, char **argv, void (*scenario)(const char *params),
            void (*prime)(const char *params));

#endif
