#!/usr/bin/python3
"""Environment conformance (DESIGN.md 1.6): build conf.c twice (real loopback TCP / envshim emulation),
run both, compare the call-by-call traces.  Exit 0 = identical, 1 = mismatch (diff printed), 2 = could not run."""
import difflib
import os
import subprocess
import sys

HERE = os.path.dirname(os.path.abspath(__file__))
sys.path.insert(0, os.path.dirname(HERE))
import build  # noqa: E402
import harnesses  # noqa: E402


def main():
    src = os.path.join(HERE, "conf.c")
    real = build.build_harness("conf_real", [src], variant="plain", lib=False, libs=())
    emu = build.build_harness("conf_emu", [src] + harnesses.MCX + ["envshim/envshim.c"], variant="plain", lib=False,
                              wraps=harnesses.WRAPS, libs=("-lssl", "-lcrypto"), extra_defs=("-DEMU=1",))
    outs = {}
    for name, exe in (("real", real), ("emulated", emu)):
        r = subprocess.run([exe], capture_output=True, text=True, timeout=120)
        if r.returncode != 0:
            print("conformance: %s run failed rc=%d\n%s" % (name, r.returncode, (r.stdout + r.stderr)[-2000:]))
            return 2
        outs[name] = r.stdout.splitlines()
    d = list(difflib.unified_diff(outs["real"], outs["emulated"], "real-loopback-tcp", "envshim-emulation", lineterm="", n=2))
    steps = sum(1 for l in outs["real"] if l.startswith("  "))
    if d:
        print("\n".join(d))
        print("conformance: MISMATCH (%d trace lines compared)" % steps)
        return 1
    print("conformance: %d call-by-call trace lines identical on real loopback TCP and on the emulation" % steps)
    return 0


if __name__ == "__main__":
    sys.exit(main())
