/* conf.c - environment conformance (DESIGN.md 1.6): the call sequences XCM issues on TCP sockets, run once
 * on REAL loopback TCP and once on envshim's emulation (AF_UNIX underneath); the call-by-call traces
 * (rc, errno, readiness) must be equal.  Built twice by conformance/run.py: -DEMU (linked with envshim,
 * --wrap) and plain.  Ports are chosen by the kernel/shim and normalised in the trace.
 */
#define _GNU_SOURCE
#include <arpa/inet.h>
#include <errno.h>
#include <fcntl.h>
#include <netinet/in.h>
#include <netinet/tcp.h>
#include <poll.h>
#include <signal.h>
#include <stdarg.h>
#include <stdio.h>
#include <stdlib.h>
#include <string.h>
#include <sys/socket.h>
#include <unistd.h>

#ifdef EMU
#include "envshim.h"
#include "mcx.h"
#endif

static const char *en(int e)
{
    switch (e) {
    case 0: return "0";
    case EAGAIN: return "EAGAIN";
    case EINPROGRESS: return "EINPROGRESS";
    case ECONNREFUSED: return "ECONNREFUSED";
    case ECONNRESET: return "ECONNRESET";
    case EPIPE: return "EPIPE";
    case EINVAL: return "EINVAL";
    case EADDRINUSE: return "EADDRINUSE";
    case EALREADY: return "EALREADY";
    case EISCONN: return "EISCONN";
    case ENOTCONN: return "ENOTCONN";
    case ENOPROTOOPT: return "ENOPROTOOPT";
    case EADDRNOTAVAIL: return "EADDRNOTAVAIL";
    case EAFNOSUPPORT: return "EAFNOSUPPORT";
    default: { static char b[16]; snprintf(b, sizeof b, "E%d", e); return b; }
    }
}

static void T(const char *fmt, ...)
{
    va_list ap;
    va_start(ap, fmt);
    vprintf(fmt, ap);
    va_end(ap);
    printf("\n");
}

#define R(what, call) do { errno = 0; long _r = (long)(call); T("  %-34s -> %ld %s", what, _r, _r < 0 ? en(errno) : ""); } while (0)

static void settle(void)
{
#ifndef EMU
    struct timespec ts = { 0, 60 * 1000 * 1000 };
    nanosleep(&ts, NULL);
#endif
}

static int mask(int fd, int ev)
{
    struct pollfd p = { .fd = fd, .events = ev };
    int rc = poll(&p, 1, 0);
    return rc > 0 ? p.revents : 0;
}

static void P(const char *what, int fd, int ev)
{
    int m = mask(fd, ev);
    T("  %-34s -> in=%d out=%d err=%d hup=%d", what, !!(m & POLLIN), !!(m & POLLOUT), !!(m & POLLERR), !!(m & POLLHUP));
}

static int g_v6;

static socklen_t mkaddr(struct sockaddr_storage *ss, int port)
{
    memset(ss, 0, sizeof *ss);
    if (g_v6) {
        struct sockaddr_in6 *a = (struct sockaddr_in6 *)ss;
        a->sin6_family = AF_INET6;
        a->sin6_port = htons(port);
        inet_pton(AF_INET6, "::1", &a->sin6_addr);
        return sizeof *a;
    }
    struct sockaddr_in *a = (struct sockaddr_in *)ss;
    a->sin_family = AF_INET;
    a->sin_port = htons(port);
    inet_pton(AF_INET, "127.0.0.1", &a->sin_addr);
    return sizeof *a;
}

static int portof(int fd, int peer)
{
    struct sockaddr_storage ss;
    socklen_t l = sizeof ss;
    int rc = peer ? getpeername(fd, (struct sockaddr *)&ss, &l) : getsockname(fd, (struct sockaddr *)&ss, &l);
    if (rc < 0)
        return -1;
    return ntohs(ss.ss_family == AF_INET6 ? ((struct sockaddr_in6 *)&ss)->sin6_port : ((struct sockaddr_in *)&ss)->sin_port);
}

static int sock(void)
{
    int fd = socket(g_v6 ? AF_INET6 : AF_INET, SOCK_STREAM | SOCK_NONBLOCK, 0);
    /* NOT marked raw: the descriptors are to behave as the library's own do (the shim offers no choice
       points outside API calls, so the default environment is what is compared) */
    return fd;
}

static int listener(int *port)
{
    int fd = sock();
    int one = 1;
    setsockopt(fd, SOL_SOCKET, SO_REUSEADDR, &one, sizeof one);
    struct sockaddr_storage ss;
    socklen_t l = mkaddr(&ss, 0);
    if (bind(fd, (struct sockaddr *)&ss, l) < 0 || listen(fd, 8) < 0) {
        T("  listener failed %s", en(errno));
        exit(2);
    }
    *port = portof(fd, 0);
    return fd;
}

static int so_error(int fd)
{
    int e = -1;
    socklen_t l = sizeof e;
    if (getsockopt(fd, SOL_SOCKET, SO_ERROR, &e, &l) < 0)
        return -errno;
    return e;
}

static int conn_to(int port)
{
    int fd = sock();
    struct sockaddr_storage ss;
    socklen_t l = mkaddr(&ss, port);
    R("connect (non-blocking)", connect(fd, (struct sockaddr *)&ss, l));
    return fd;
}

/* ---- scenarios ------------------------------------------------------------------------------------- */
static void s_connect_accept_data(void)
{
    int port, lfd = listener(&port);
    T("listener: port %s", port > 0 ? "assigned" : "NOT assigned");
    R("accept4 nothing pending", accept4(lfd, NULL, NULL, SOCK_NONBLOCK));
    P("listener readiness (idle)", lfd, POLLIN);
    int c = conn_to(port);
    settle();
    P("client readiness after connect", c, POLLIN | POLLOUT);
    T("  %-34s -> %s", "SO_ERROR", en(so_error(c)));
    T("  %-34s -> %s", "getpeername port == listener", portof(c, 1) == port ? "yes" : "no");
    T("  %-34s -> %s", "getsockname port assigned", portof(c, 0) > 0 ? "yes" : "no");
    P("listener readiness (pending)", lfd, POLLIN);
    int a = accept4(lfd, NULL, NULL, SOCK_NONBLOCK);
    T("  %-34s -> %s", "accept4", a >= 0 ? "fd" : en(errno));
    T("  %-34s -> %s", "accepted O_NONBLOCK", (fcntl(a, F_GETFL) & O_NONBLOCK) ? "yes" : "no");
    T("  %-34s -> %s", "accepted peer port == client's", portof(a, 1) == portof(c, 0) ? "yes" : "no");
    T("  %-34s -> %s", "accepted local port == listener", portof(a, 0) == port ? "yes" : "no");
    R("accept4 again", accept4(lfd, NULL, NULL, SOCK_NONBLOCK));
    char buf[64];   /* (a second connect() on the connected socket is not compared: XCM never issues one) */
    R("recv nothing there", recv(c, buf, sizeof buf, 0));
    R("recv len 0, nothing there", recv(c, buf, 0, 0));
    R("send 5", send(c, "hello", 5, MSG_NOSIGNAL));
    settle();
    P("peer readiness with data", a, POLLIN | POLLOUT);
    R("peer recv len 0, data there", recv(a, buf, 0, 0));
    R("peer recv 3", recv(a, buf, 3, 0));
    R("peer recv rest", recv(a, buf, sizeof buf, 0));
    R("peer recv again", recv(a, buf, sizeof buf, 0));
    close(c);
    close(a);
    close(lfd);
}

static void s_orderly_close(void)
{
    int port, lfd = listener(&port);
    int c = conn_to(port);
    settle();
    int a = accept4(lfd, NULL, NULL, SOCK_NONBLOCK);
    char buf[64];
    R("peer sends 1 byte", send(a, "x", 1, MSG_NOSIGNAL));
    R("peer closes", close(a));
    settle();
    P("readiness after peer FIN", c, POLLIN | POLLOUT);
    R("send after peer FIN (1st)", send(c, "abc", 3, MSG_NOSIGNAL));
    settle();
    P("readiness once the RST is in", c, POLLIN | POLLOUT);
    R("send after peer FIN (2nd)", send(c, "abc", 3, MSG_NOSIGNAL));
    R("recv queued byte", recv(c, buf, sizeof buf, 0));
    R("recv after that", recv(c, buf, sizeof buf, 0));
    R("recv again", recv(c, buf, sizeof buf, 0));
    R("send again", send(c, "abc", 3, MSG_NOSIGNAL));
    close(c);
    close(lfd);
}

static void s_fin_then_read(void)
{
    int port, lfd = listener(&port);
    int c = conn_to(port);
    settle();
    int a = accept4(lfd, NULL, NULL, SOCK_NONBLOCK);
    char buf[64];
    R("peer sends 4", send(a, "wxyz", 4, MSG_NOSIGNAL));
    R("peer closes", close(a));
    settle();
    R("recv 2", recv(c, buf, 2, 0));
    R("recv rest", recv(c, buf, sizeof buf, 0));
    R("recv EOF", recv(c, buf, sizeof buf, 0));
    R("recv EOF again", recv(c, buf, sizeof buf, 0));
    R("recv len 0 at EOF", recv(c, buf, 0, 0));
    P("readiness at EOF", c, POLLIN);
    close(c);
    close(lfd);
}

static void s_reset(void)
{
    int port, lfd = listener(&port);
    int c = conn_to(port);
    settle();
    int a = accept4(lfd, NULL, NULL, SOCK_NONBLOCK);
    char buf[64];
    R("client sends 3 (peer never reads)", send(c, "abc", 3, MSG_NOSIGNAL));
    R("peer sends 2", send(a, "pq", 2, MSG_NOSIGNAL));
    settle();
    R("peer closes with unread data", close(a));
    settle();
    P("readiness after RST", c, POLLIN | POLLOUT);
    R("recv after RST (queued data?)", recv(c, buf, sizeof buf, 0));
    R("recv after RST again", recv(c, buf, sizeof buf, 0));
    R("send after RST", send(c, "abc", 3, MSG_NOSIGNAL));
    R("recv after that", recv(c, buf, sizeof buf, 0));
    close(c);
    close(lfd);
}

static void s_refused(void)
{
    /* a port nobody listens on: take one from a listener and close it */
    int port, lfd = listener(&port);
    close(lfd);
    int c = conn_to(port);
    settle();
    P("readiness after refusal", c, POLLIN | POLLOUT);
    T("  %-34s -> %s", "SO_ERROR", en(so_error(c)));
    T("  %-34s -> %s", "SO_ERROR again", en(so_error(c)));
    R("getpeername after refusal", portof(c, 1));
    /* XCM's sequential algorithm: dissolve and re-use the descriptor */
    struct sockaddr sa = { .sa_family = AF_UNSPEC };
    R("connect(AF_UNSPEC)", connect(c, &sa, sizeof sa));
    int port2, lfd2 = listener(&port2);
    struct sockaddr_storage ss;
    socklen_t l = mkaddr(&ss, port2);
    R("re-connect to a listener", connect(c, (struct sockaddr *)&ss, l));
    settle();
    P("readiness", c, POLLIN | POLLOUT);
    T("  %-34s -> %s", "SO_ERROR", en(so_error(c)));
    T("  %-34s -> %s", "getpeername port == listener", portof(c, 1) == port2 ? "yes" : "no");
    close(c);
    close(lfd2);
}

static void s_bind(void)
{
    int port, lfd = listener(&port);
    close(lfd);           /* `port` now refuses */
    for (int fixed = 0; fixed < 2; fixed++) {
        T("bind %s then refused connect, AF_UNSPEC, bind again", fixed ? "fixed port" : "port 0");
        int fp, tmp = listener(&fp);
        close(tmp);       /* a free port to name */
        int c = sock();
        struct sockaddr_storage ss;
        socklen_t l = mkaddr(&ss, fixed ? fp : 0);
        R("bind", bind(c, (struct sockaddr *)&ss, l));
        T("  %-34s -> %s", "getsockname port", fixed ? (portof(c, 0) == fp ? "the named one" : "OTHER") : (portof(c, 0) > 0 ? "assigned" : "0"));
        R("bind again at once", bind(c, (struct sockaddr *)&ss, l));
        l = mkaddr(&ss, port);
        R("connect (refusing port)", connect(c, (struct sockaddr *)&ss, l));
        settle();
        T("  %-34s -> %s", "SO_ERROR", en(so_error(c)));
        struct sockaddr sa = { .sa_family = AF_UNSPEC };
        R("connect(AF_UNSPEC)", connect(c, &sa, sizeof sa));
        l = mkaddr(&ss, fixed ? fp : 0);
        R("bind after AF_UNSPEC", bind(c, (struct sockaddr *)&ss, l));
        int port2, lfd2 = listener(&port2);
        l = mkaddr(&ss, port2);
        R("connect to a listener", connect(c, (struct sockaddr *)&ss, l));
        settle();
        T("  %-34s -> %s", "SO_ERROR", en(so_error(c)));
        if (fixed)
            T("  %-34s -> %s", "source port still the named one", portof(c, 0) == fp ? "yes" : "no");
        close(c);
        close(lfd2);
    }
    /* address in use */
    int p2, l2 = listener(&p2);
    int s = sock();
    int one = 1;
    setsockopt(s, SOL_SOCKET, SO_REUSEADDR, &one, sizeof one);
    struct sockaddr_storage ss;
    socklen_t l = mkaddr(&ss, p2);
    R("bind to a listening port (REUSEADDR)", bind(s, (struct sockaddr *)&ss, l));
    close(s);
    close(l2);
}

static void s_unconnected(void)
{
    int c = sock();
    char buf[8];
    R("getpeername unconnected", portof(c, 1));
    R("recv unconnected", recv(c, buf, sizeof buf, 0));
    T("  %-34s -> %s", "SO_ERROR fresh", en(so_error(c)));
    close(c);
}

static void so(int fd, const char *nm, int level, int opt, int val)
{
    errno = 0;
    int rc = setsockopt(fd, level, opt, &val, sizeof val);
    int e = errno, got = -12345;
    socklen_t l = sizeof got;
    int grc = getsockopt(fd, level, opt, &got, &l);
    T("  set %-18s %-11d -> %d %-12s get -> %d", nm, val, rc, rc < 0 ? en(e) : "", grc < 0 ? -1 : got);
}

static void s_sockopts(void)
{
    int port, lfd = listener(&port);
    int c = conn_to(port);
    settle();
    int a = accept4(lfd, NULL, NULL, SOCK_NONBLOCK);
    int fds[2] = { c, a };
    for (int i = 0; i < 2; i++) {
        int fd = fds[i], got;
        socklen_t l = sizeof got;
        T("%s socket:", i ? "accepted" : "connected");
        getsockopt(fd, SOL_TCP, TCP_KEEPIDLE, &got, &l); T("  default TCP_KEEPIDLE  %d", got);
        getsockopt(fd, SOL_TCP, TCP_KEEPINTVL, &got, &l); T("  default TCP_KEEPINTVL %d", got);
        getsockopt(fd, SOL_TCP, TCP_KEEPCNT, &got, &l); T("  default TCP_KEEPCNT   %d", got);
        getsockopt(fd, SOL_SOCKET, SO_KEEPALIVE, &got, &l); T("  default SO_KEEPALIVE  %d", got);
        getsockopt(fd, SOL_TCP, TCP_USER_TIMEOUT, &got, &l); T("  default USER_TIMEOUT  %d", got);
        static const int kv[] = { 0, 1, 7, 32767, 32768, -1 };
        for (unsigned k = 0; k < sizeof kv / sizeof kv[0]; k++) {
            so(fd, "TCP_KEEPIDLE", SOL_TCP, TCP_KEEPIDLE, kv[k]);
            so(fd, "TCP_KEEPINTVL", SOL_TCP, TCP_KEEPINTVL, kv[k]);
        }
        static const int cv[] = { 0, 1, 3, 127, 128, -1 };
        for (unsigned k = 0; k < sizeof cv / sizeof cv[0]; k++)
            so(fd, "TCP_KEEPCNT", SOL_TCP, TCP_KEEPCNT, cv[k]);
        static const int uv[] = { 0, 1000, 3000, 2147483000, -1 };
        for (unsigned k = 0; k < sizeof uv / sizeof uv[0]; k++)
            so(fd, "TCP_USER_TIMEOUT", SOL_TCP, TCP_USER_TIMEOUT, uv[k]);
        so(fd, "SO_KEEPALIVE", SOL_SOCKET, SO_KEEPALIVE, 1);
        so(fd, "SO_KEEPALIVE", SOL_SOCKET, SO_KEEPALIVE, 0);
        so(fd, "TCP_NODELAY", SOL_TCP, TCP_NODELAY, 1);
        so(fd, "TCP_SYNCNT", SOL_TCP, TCP_SYNCNT, 3);
        if (g_v6)
            so(fd, "IPV6_TCLASS", SOL_IPV6, IPV6_TCLASS, 160);
        else
            so(fd, "IP_TOS", SOL_IP, IP_TOS, 160);
    }
    close(c);
    close(a);
    close(lfd);
}

static void s_options_survive_disconnect(void)
{
    int port, lfd = listener(&port);
    close(lfd);
    int c = sock();
    int v = 7000, got = -1;
    socklen_t l = sizeof got;
    setsockopt(c, SOL_TCP, TCP_USER_TIMEOUT, &v, sizeof v);
    v = 5;
    setsockopt(c, SOL_TCP, TCP_KEEPIDLE, &v, sizeof v);
    struct sockaddr_storage ss;
    socklen_t al = mkaddr(&ss, port);
    R("connect (refusing port)", connect(c, (struct sockaddr *)&ss, al));
    settle();
    T("  %-34s -> %s", "SO_ERROR", en(so_error(c)));
    struct sockaddr sa = { .sa_family = AF_UNSPEC };
    R("connect(AF_UNSPEC)", connect(c, &sa, sizeof sa));
    getsockopt(c, SOL_TCP, TCP_USER_TIMEOUT, &got, &l);
    T("  TCP_USER_TIMEOUT after disconnect  -> %d", got);
    getsockopt(c, SOL_TCP, TCP_KEEPIDLE, &got, &l);
    T("  TCP_KEEPIDLE after disconnect      -> %d", got);
    close(c);
}

int main(int argc, char **argv)
{
    (void)argc; (void)argv;
    signal(SIGPIPE, SIG_IGN);
    setvbuf(stdout, NULL, _IOLBF, 0);
#ifdef EMU
    struct env_cfg cfg = { .io_menu = 0, .only_task = -1 };
    env_init(&cfg);
#endif
    for (g_v6 = 0; g_v6 < 2; g_v6++) {
        T("=== family %s", g_v6 ? "IPv6 ::1" : "IPv4 127.0.0.1");
        T("--- connect / accept / data"); s_connect_accept_data();
        T("--- orderly close, then send"); s_orderly_close();
        T("--- orderly close, read to EOF"); s_fin_then_read();
        T("--- close with unread data (reset)"); s_reset();
        T("--- refused connect, AF_UNSPEC, reconnect"); s_refused();
        T("--- bind semantics"); s_bind();
        T("--- unconnected socket"); s_unconnected();
        T("--- socket options"); s_sockopts();
        T("--- options survive disconnect"); s_options_survive_disconnect();
    }
    return 0;
}
