"""C06 - terminal conditions are reported faithfully and stick.

Deciding step: fault enumeration inside the mcx explorer, against the real code (h_term + envshim):
  (1) FAULT   two XCM endpoints exchange 2+2 messages; at EVERY data-path call (send/recv below XCM and below
              OpenSSL) of the run and for EVERY errno in {ECONNRESET, ETIMEDOUT, EHOSTUNREACH, ENETUNREACH, EPIPE}
              the call fails and the descriptor is dead afterwards; three application scripts decide which API call
              (send / receive / finish) is the one that meets it; then every call is issued twice more
  (2) CONN    every errno outcome of the connection establishment (ECONNREFUSED, ETIMEDOUT, EHOSTUNREACH,
              ENETUNREACH, ECONNRESET; and a silent peer until tcp.connect_timeout), reported at once or after latency
  (3) CLOSE   orderly close by an XCM peer with complete messages still queued, first met by receive / send / finish,
              with and without a frame pending for write on the observing side (the pending frame is an explored
              deviation: EAGAIN / short write / write stall)
  (4) RAW     a harness-owned raw peer writes a prefix of a wire stream (three frames, one maximal frame, a byte
              stream) cut at EVERY byte offset and dies by FIN or by reset; for the TLS transports the raw peer is an
              OpenSSL endpoint whose whole output (handshake flights, tickets, application records) is cut at every
              byte offset, XCM side as client and as server
  (5) PROTO   a raw peer (plain and TLS, XCM side as client and as server) sends a valid frame followed by an invalid frame
              header (length 0, 65536, 2^20) and stays connected: the framing-level protocol error, cut at every byte offset
              on tcp; finish/send issued before and after xcm_receive discovers it
After EVERY first terminal report the follow-up battery is: receive, send, finish in a scripted order, twice, then finish
again and xcm_set_blocking(true) (which has to finish outstanding work and is judged like finish), all under the sticky oracle;
all combined with every schedule / environment deviation pattern of <= D deviations.  The harness sees every choice
the environment takes (link-time wrap of mc_choose), so the oracle knows exactly which errno was injected during
which API call and whether a close was an orderly FIN or a reset at the wire."""
import os
import subprocess
import sys
import time

sys.path.insert(0, os.path.dirname(os.path.dirname(os.path.abspath(__file__))))
import build  # noqa: E402
import harnesses  # noqa: E402
from checks import msgfamily  # noqa: E402

LEVEL = "fault_enumeration"
PREFIXES = ("C06/", "crash/")

ASSUME = [
    "TCP is emulated over AF_UNIX stream sockets by envshim; an injected errno leaves the descriptor dead as a real one is "
    "(later recv 0 / send EPIPE) and the other end sees a reset; a close with unread data is a reset, otherwise a FIN; the first "
    "send after the peer's FIN is accepted and the next fails with EPIPE, or fails at once (both explored); ux/uxf run on real "
    "AF_UNIX SEQPACKET sockets",
    "I/O deviations offered: short counts (1 byte, half, all but one), persistent write stall, trickle, accept EAGAIN, EPIPE at once "
    "on the first send after the peer's FIN; the single-shot 'EAGAIN although data is queued' answer is left out: before the peer's "
    "FIN it equals a schedule in which the reader runs before the writer (enumerated anyway), after the FIN no kernel gives it "
    "(TCP delivers the data before the FIN)",
    "non-blocking sockets only (the blocking forms are loops around the same transport calls)",
    "EPIPE is the 'closed' class: after it xcm_receive may return 0 or -1/EPIPE and xcm_finish 0 or -1/EPIPE; once an explicit "
    "xcm_send/xcm_finish has reported the end of an orderly-closed connection both 'drain, then 0' and 'nothing succeeds any more' "
    "are accepted; draining is demanded only when xcm_receive itself is the first call to meet the close",
    "a close during which the environment refused the closing side's own writes (TLS close_notify) counts as a break: any sticky "
    "terminal report is accepted; a raw TLS peer that sends FIN without close_notify may be reported as 0/EPIPE or as EPROTO and "
    "owes no drain, and a 0/EPIPE report of such a death may be superseded once by EPROTO when a later read meets the truncated "
    "stream (EPROTO then sticks); a TLS peer that closed with xcm_close but whose TCP close became a reset (e.g. a client that never read its "
    "NewSessionTickets) may be reported as orderly close or as ECONNRESET and enjoys the same latitude as an orderly close; a "
    "connection that ends before the other side has accepted it is not judged for faithfulness (the emulation answers recv with "
    "end-of-stream and send with a reset there)",
    "OpenSSL is trusted: it deliberately ignores ECONNRESET/EPIPE while flushing the TLS 1.3 NewSessionTicket; such a failure "
    "met inside xcm_receive need not be reported by that call, data that had arrived may still be returned, and the eventual "
    "report may be the errno or EPROTO (truncated stream) - reported as an INFO line",
    "'same errno afterwards' is demanded on the TCP-based transports only; on ux/uxf the clauses are: nothing succeeds after a "
    "terminal report, 0 sticks, send after the close fails with EPIPE",
    "xcm_set_blocking(true) on a connection that has reported a terminal condition is judged like xcm_finish (it has to finish "
    "outstanding work): same errno on the TCP-based transports, 0 or EPIPE after an orderly close; when it succeeds the socket is "
    "switched back to non-blocking at once",
    "message lengths {1,2,3} (+300, +65535 in the maximal-frame cut set); payload bytes patterned (data independence of framing)",
    "bounds: every choice sequence with <= D deviations (injected fault, I/O deviation, preemption each cost 1; the cut offset "
    "and the initial task order are free); a violation needing more is not excluded",
]

T = ("tcp", "tls", "btcp", "btls", "utlstls")
TLS = ("tls", "btls", "utlstls")
MENU = "menu=0x777"      # short counts, write stall, trickle, accept EAGAIN, EPIPE-at-once; see ASSUME for what is left out
SCRIPTS = (("ssfrrc", "rrssf", "rsf"), ("fssfrrc", "frrssf", "srf"), ("rrssfc", "ssfrr", "fsr"))


def tls_stream_len(exe, tp, role, sa, extra=""):
    """length of the raw TLS peer's whole output in the uncut run (deterministic: fixed RAND)"""
    params = "tp=%s,mode=raw,role=%s,sa=%s,cut=60000:60000,%s%s" % (tp, role, sa, msgfamily.certs(), extra)
    r = subprocess.run([exe, "--single", "--params", params], capture_output=True)
    import re
    m = re.search(r"cut=60000/(\d+)", r.stdout.decode(errors="replace"))
    return int(m.group(1)) if m else 1400


def configs(tier, exe):
    q = tier == "quick"
    c = []
    # (1) faults at every data-path call x errno x first observer
    for tp in T:
        for i, (sa, sb, bat) in enumerate(SCRIPTS):
            base = "tp=%s,mode=pair,sa=%s,sb=%s,bat=%s,fd=1" % (tp, sa, sb, bat)
            if q:
                c.append((base, 1))                              # every single fault, default environment otherwise
                if tp in ("tcp", "btcp") and i == 0:
                    c.append((base + "," + MENU, 2))             # + one further deviation
            else:
                c.append((base + "," + MENU, 2))
                if tp in ("tcp", "btcp") and i < 2:
                    c.append((base + "," + MENU, 3))
    # (2) establishment outcomes
    for tp in T:
        for sa in ("R", "sR", "fR"):
            c.append(("tp=%s,mode=conn,sa=%s,sb=R,fc=1,menu=0x80" % (tp, sa), 2 if q else 3))
        c.append(("tp=%s,mode=conn,sa=R,sb=R,policy=silent,menu=0x80" % tp, 1 if q else 2))
    # (3) orderly close with queued complete messages; first observer receive / send / finish
    for tp in T:
        d = (2 if tp not in TLS else 2) if q else (3 if tp not in TLS else 2)
        # (the leading f completes the TLS handshake: an endpoint that waits for its peer's end does not service its socket)
        for sa, sb in (("fswR", "fssfc"), ("fswsssR", "fssfc"), ("fswfsR", "fssfc"), ("fwR", "fssfc"), ("fsfwR", "frssfc"),
                       ("fsfwsssR", "frssfc")):
            if q and tp in TLS and not (sa == "fswR" or (tp == "tls" and sa == "fwR")):
                continue
            c.append(("tp=%s,mode=pair,sa=%s,sb=%s,%s" % (tp, sa, sb, MENU), d))
    # the client sends, flushes and closes at once; the server side completes its handshake only afterwards
    for tp in T:
        for sb in ("R", "fR", "sR"):
            if q and sb != "R" and tp not in ("tls", "btls"):
                continue
            c.append(("tp=%s,mode=pair,sa=sssfc,sb=%s,%s" % (tp, sb, MENU), 1 if q else 2))
    for tp in ("ux", "uxf"):
        for sa, sb in (("wR", "ssfc"), ("wsssR", "ssfc"), ("wfsR", "ssfc"), ("sfwR", "rssfc"), ("sfwsR", "rssfc"),
                       ("swR", "ssfc"), ("R", "ssfc")):
            c.append(("tp=%s,mode=pair,sa=%s,sb=%s" % (tp, sa, sb), 2 if q else 3))
    # (4) raw peer death at every byte offset
    for tp, wire, hi in (("tcp", "3", 18), ("btcp", "bs", 6)):
        for sa, extra in (("R", ""), ("wR", ""), ("wsssR", ""), ("wfR", ""), ("sfwR", ",rawread=1"),
                          ("sfwR", ",rawwait=1"), ("sfwsssR", ",rawwait=1"), ("swR", ",rawdrain=1"), ("swfR", ",rawdrain=1")):
            c.append(("tp=%s,mode=raw,sa=%s,wire=%s,cut=0:%d%s,%s" % (tp, sa, wire, hi, extra, MENU),
                      (1 if sa != "swR" else 2) if q else 2))
        for role in ("s",):
            c.append(("tp=%s,mode=raw,role=s,sa=R,wire=%s,cut=0:%d,%s" % (tp, wire, hi, MENU), 1 if q else 2))
    c.append(("tp=tcp,mode=raw,sa=R,wire=big,cuts=1;2;3;4;5;65538;65539,%s" % MENU, 1 if q else 2))
    c.append(("tp=tcp,mode=raw,sa=wR,wire=big,cuts=1;2;3;4;5;65538;65539,%s" % MENU, 1 if q else 2))
    # TLS: every byte offset of the raw peer's output (handshake flights, tickets, records)
    tls_raw = []
    for tp in TLS:
        for role in ("c", "s"):
            if tp == "utlstls" and role == "s":
                continue
            for sa, extra in (("R", ""), ("sR", ""), ("fR", ""), ("sfwR", ",rawwait=1")):
                if q and (sa in ("fR", "sfwR") or (tp != "tls" and sa != "R")):
                    continue
                tls_raw.append((tp, role, sa, extra))
    for tp, role, sa, extra in tls_raw:
        n = tls_stream_len(exe, tp, role, sa, extra)
        c.append(("tp=%s,mode=raw,role=%s,sa=%s,cut=0:%d%s" % (tp, role, sa, n + 1, extra), 0))
    if not q:
        # + one further deviation at every offset of the two basic TLS streams
        for role in ("c", "s"):
            n = tls_stream_len(exe, "tls", role, "R")
            c.append(("tp=tls,mode=raw,role=%s,sa=R,cut=0:%d,%s" % (role, n + 1, MENU), 1))
    # (5) framing-level protocol error: a raw peer sends a good frame, then a header no XCM peer can send (length 0, 65536,
    # 2^20), and stays connected - the protocol error is the only terminal condition and only xcm_receive can discover it;
    # the application calls finish / send before or after the discovery, then the battery (every call twice, finish again,
    # set_blocking(true))
    for wire in ("bad0", "badmax", "badbig"):
        for sa in ("R", "wfsR", "wsfR", "sfwR"):
            if q and (wire == "badmax" or sa in ("wsfR", "sfwR")):
                continue
            c.append(("tp=tcp,mode=raw,sa=%s,wire=%s,cut=0:15,%s" % (sa, wire, MENU), 1 if q else 2))
        c.append(("tp=tcp,mode=raw,role=s,sa=R,wire=%s,cut=0:15,%s" % (wire, MENU), 1 if q else 2))
    for tp, role in (("tls", "c"), ("utlstls", "c"), ("tls", "s")):
        for wire in ("bad0", "badbig"):
            for sa in ("fR", "fwfsR", "fwsfR"):
                if q and (sa == "fwsfR" or (wire == "bad0" and sa != "fR")):
                    continue
                # the whole stream is written (cuts inside it are family (4)); bounded deviations on the XCM side
                c.append(("tp=%s,mode=raw,role=%s,sa=%s,wire=%s,cut=60000:60000,%s" % (tp, role, sa, wire, MENU), 1 if q else 2))
    # sanitizer build over the cut sets and the single faults
    c.append(("tp=tcp,mode=raw,sa=R,wire=3,cut=0:18,%s" % MENU, 1, "asan"))
    c.append(("tp=tcp,mode=pair,sa=ssfrrc,sb=rrssf,bat=rsf,fd=1", 1, "asan"))
    c.append(("tp=tls,mode=pair,sa=ssfrrc,sb=rrssf,bat=rsf,fd=1", 1, "asan"))
    return c


COUNTERS = {0: "api_calls_judged", 1: "terminal_reports_judged", 2: "stickiness_checks", 3: "faults_injected",
            4: "raw_cut_cases", 6: "raw_cut_beyond_stream"}


def _explore_all(chk, cfgs, jobs, deadline_s):
    """msgfamily.run_configs with one addition: a child killed by the explorer's 60 s real-time watchdog that does NOT
    die again when its choice list is replayed is an overload artefact of the machine, not a verdict; the configuration
    is explored again (once) and only a second occurrence makes the check broken."""
    exes = {}
    t_end = time.time() + deadline_s
    tot = dict(executions=0, states=0, transitions=0, outcomes=0, points=0)
    counters = [0] * 24
    per_cfg, samples = [], []
    completed_all = True
    for cfg in cfgs:
        params, bound = cfg[0], cfg[1]
        variant = cfg[2] if len(cfg) > 2 else "plain"
        if msgfamily.needs_tls(params) and "certs=" not in params:
            params += "," + msgfamily.certs()
        if variant not in exes:
            exes[variant] = harnesses.build_explorer_harness("h_term", variant=variant, extra_wraps=["mc_choose"])
        env = harnesses.asan_env() if variant == "asan" else None
        res = None
        for attempt in (0, 1):
            left = t_end - time.time()
            if left < 3:
                break
            res = harnesses.explore(exes[variant], params, bound, left, jobs=jobs, env=env)
            flaky = [v for v in res.get("violations", [])
                     if v["signature"].startswith("crash/SIGALRM(watchdog)") and not v.get("reproduced")]
            if not flaky:
                break
            chk.info("C06/watchdog-overload", "a child of '%s' was killed by the 60 s watchdog and ran normally on replay "
                     "(machine overload); configuration explored again" % cfg[0])
            if attempt == 0:
                res = None
        if res is None:
            chk.deadline_hit = True
            completed_all = False
            per_cfg.append(dict(params=cfg[0], bound=bound, build=variant, skipped="tier deadline reached"))
            continue
        harnesses.merge_into(chk, res, PREFIXES, cfg[0], build_variant=variant)
        tot["executions"] += res.get("executions", 0)
        tot["states"] += res.get("states", 0)
        tot["transitions"] += res.get("transitions", 0)
        tot["outcomes"] += res.get("distinct_outcomes", 0)
        tot["points"] += res.get("points_total", 0)
        for i, c in enumerate(res.get("counters", [])[:24]):
            counters[i] += c
        if res.get("completed_bound", -1) < bound:
            completed_all = False
        per_cfg.append(dict(params=cfg[0], bound=bound, build=variant, completed_bound=res.get("completed_bound"),
                            executions=res.get("executions"), states=res.get("states"),
                            transitions=res.get("transitions"), distinct_outcomes=res.get("distinct_outcomes"),
                            executions_per_level=res.get("executions_per_level"),
                            max_choice_points=res.get("max_points"), wall_s=round(res.get("elapsed", 0), 2)))
        for smp in res.get("samples", [])[:1]:
            if len(samples) < 12:
                samples.append(dict(scenario=cfg[0], execution=smp))
    chk.add_cov(states=tot["states"], transitions=tot["transitions"], traces_validated_against_impl=tot["executions"],
                executions=tot["executions"], evaluations=tot["executions"], distinct_outcomes_summed=tot["outcomes"],
                choice_points_total=tot["points"], configurations=len(cfgs), per_configuration=per_cfg, samples=samples,
                exhaustive=completed_all and not chk.deadline_hit)
    chk.add_cov(**{n: counters[i] for i, n in COUNTERS.items()})


def run(chk, tier, jobs, deadline):
    chk.assumptions += ASSUME
    msgfamily.ensure_pki()
    exe = harnesses.build_explorer_harness("h_term", extra_wraps=["mc_choose"])
    cfgs = configs(tier, exe)
    _explore_all(chk, cfgs, jobs, deadline or (600 if tier == "quick" else 2700))
    by_family = {}
    for c in cfgs:
        fam = "proto" if "wire=bad" in c[0] else "raw" if "mode=raw" in c[0] else "conn" if "mode=conn" in c[0] else "fault" if "fd=1" in c[0] else "close"
        by_family[fam] = by_family.get(fam, 0) + 1
    chk.add_cov(transports=list(T) + ["ux", "uxf"], configurations_by_family=by_family,
                errnos_injected=["ECONNRESET", "ETIMEDOUT", "EHOSTUNREACH", "ENETUNREACH", "EPIPE"],
                connect_outcomes=["ECONNREFUSED", "ETIMEDOUT", "EHOSTUNREACH", "ENETUNREACH", "ECONNRESET",
                                  "silent peer until tcp.connect_timeout"])


def prepare_replay(art):
    harnesses.build_explorer_harness("h_term", variant=art.get("build", "plain"), extra_wraps=["mc_choose"])
