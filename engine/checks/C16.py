"""C16 - readiness is sound: one stable descriptor that is quiet when idle.

The readiness oracle is evaluated at the final quiescent state (both scripts complete, both sides
flushed, everything sent has been received) of EVERY execution explored, i.e. after every mix of
partial I/O and every interleaving inside the bound; xcm_fd is sampled after every API call."""
from checks import msgfamily

LEVEL = "model_checking"
PREFIXES = ("C16/",)

ASSUME = [
    "the readiness clauses are evaluated only in the situations the property names (idle + flushed pair; after "
    "EAGAIN; server with nothing pending; already-met conditions); busy wake-ups elsewhere are INFO",
    "AF_UNIX delivery is synchronous, so no settle window is needed; the descriptor is polled three times anyway",
    "histories: all executions with <= D deviations of the listed scenarios",
]


def configs(tier):
    q = tier == "quick"
    c = []
    M = "cnt=0,prop=C16,probe=1"
    for tp, dq, dt in (("tcp", 3, 4), ("btcp", 3, 4), ("ux", 3, 4), ("uxf", 3, 4), ("utls", 3, 4),
                       ("tls", 2, 3), ("utlstls", 2, 3), ("btls", 2, 3)):
        bs = tp in ("btcp", "btls")
        scripts = (("S3", "spec"), ("S3", "strict")) if bs else \
            (("T1s", "spec"), ("T2", "loop"), ("T6", "strict"), ("T3", "spec"))
        for script, style in scripts:
            d = dq if q else dt
            c.append(("tp=%s,script=%s,style=%s,%s" % (tp, script, style, M), d))
    return c


# Part 2: the control interface keeps descriptors of its own (a listening UNIX socket and up to two session sockets)
# in the socket's epoll set.  h_ctl with probe16=1: when the traffic is over and flushed and every control session
# has had all its requests answered and has read the replies, the sessions are kept OPEN (1, 2, and 3 of them - the
# third sits un-accepted in the listen queue beyond the two-entry session table), the control interface is serviced
# until it has nothing left to do, and xcm_fd of the target must not be readable while the awaited condition is 0
# (connection) / XCM_SO_ACCEPTABLE with nothing pending (server socket).
CTL_CONFIGS = [
    # (params, bound quick, bound thorough)
    ("tp=tcp,target=a,c0=r:ga,c1=x:g,c2=r:,rel=99,probe16=1", 0, 1),
    ("tp=ux,target=srv,c0=r:g,c1=r:a,c2=r:,rel=99,probe16=1", 0, 1),
    ("tp=tcp,target=b,c0=r:g,c1=r:a,c2=r:,rel=99,probe16=1", 0, 1),
    ("tp=tcp,target=srv,c0=r:g,c1=r:k,rel=99,probe16=1", 1, 2),
    ("tp=ux,target=b,c0=x:ag,c1=r:u,rel=99,probe16=1", 1, 2),
    ("tp=tcp,target=srv,c0=r:g,c1=r:k,rel=3,probe16=1", 0, 1),
    ("tp=ux,target=a,c0=r:g,rel=0,probe16=1", 1, 2),
]


def run_ctl_part(chk, tier, jobs):
    import os
    import shutil
    import build
    import harnesses
    from checks import C14 as c14
    q = tier == "quick"
    run_root = os.path.join(build.BUILD, "run", "c16ctl-%d" % os.getpid())
    os.makedirs(run_root, exist_ok=True)
    cov = chk.coverage
    probes = 0
    try:
        exe = harnesses.build_explorer_harness("h_ctl", variant="plain", **c14.BUILD_KW)
        env = dict(os.environ, C14_RUN=run_root)
        for params, bq, bt in CTL_CONFIGS:
            bound = bq if q else bt
            res = harnesses.explore(exe, params, bound, 120 if q else 600, jobs=jobs, env=env)
            harnesses.merge_into(chk, res, PREFIXES, params)
            for k in ("states", "transitions", "executions"):
                cov[k] = cov.get(k, 0) + res.get(k, 0)
            cov["traces_validated_against_impl"] = cov.get("traces_validated_against_impl", 0) + res.get("executions", 0)
            cov["evaluations"] = cov.get("evaluations", 0) + res.get("executions", 0)
            cov["configurations"] = cov.get("configurations", 0) + 1
            probes += (res.get("counters") or [0] * 6)[5]
            cov.setdefault("per_configuration", []).append(
                dict(params=params, bound=bound, build="plain", harness="h_ctl", executions=res.get("executions"),
                     completed_bound=res.get("completed_bound"), states=res.get("states"),
                     transitions=res.get("transitions"), wall_s=round(res.get("elapsed", 0), 2)))
            for s in res.get("samples", [])[:1]:
                if len(cov.setdefault("samples", [])) < 12:
                    cov["samples"].append(dict(scenario=params, execution=s))
            if res.get("completed_bound", -1) < bound:
                cov["exhaustive"] = False
    finally:
        shutil.rmtree(run_root, ignore_errors=True)
    cov["idle_probes_with_open_control_sessions"] = probes


def run_fork_part(chk, tier, jobs):
    """C16's converse clause across fork(): the readiness machinery behind xcm_fd is an epoll instance that a forked child
    shares with its parent; a child that only cleans up (xcm_cleanup) must not alter it, or the owner's later xcm_await calls
    are no-ops and its descriptor stays silent for good.  The process-local virtual clock cannot show the consequence, so
    the alteration is caught at the call (envshim's child-alteration ledger), in the fork scenarios of h_life (C08's
    harness): every 'C08/cleanup-altered-owner/epoll_ctl...' report is a C16 violation as well."""
    import os
    import copy
    import harnesses
    from checks import C08 as c08
    q = tier == "quick"
    exe = harnesses.build_explorer_harness("h_life", variant="plain", extra_wraps=c08.EXTRA_WRAPS)
    env = dict(os.environ, MCX_NO_PIN="1")
    cov = chk.coverage
    scs = ["sc=conn-cps,ctl=on,forkat=%d" % k for k in range(1, 7)] + ["sc=server,ctl=on,forkat=1", "sc=handover,ctl=on",
                                                                       "sc=forkn,ctl=on"]
    forks = 0
    for tp in ("tcp", "btcp", "tls", "btls", "utls", "ux"):
        for sc in scs:
            params = "tp=%s,%s" % (tp, sc)
            if tp in c08.TLSISH:
                params += "," + msgfamily.certs()
            res = harnesses.explore(exe, params, 0 if q else 1, 60 if q else 300, jobs=jobs, env=env)
            res = copy.copy(res)
            vs = []
            for v in res.get("violations", []):
                if v["signature"].startswith("C08/cleanup-altered-owner/epoll_ctl"):
                    v = dict(v)
                    v["signature"] = "C16/registration-altered-by-forked-cleanup/" + v["signature"].split("/", 2)[2]
                    v["text"] = ("a forked child's xcm_cleanup altered the epoll instance behind the owner's xcm_fd (the owner's later "
                                 "xcm_await calls change nothing and the descriptor stays silent): " + v["text"])
                    vs.append(v)
            res["violations"] = vs
            res["infos"] = []
            harnesses.merge_into(chk, res, PREFIXES, params)
            for k in ("states", "transitions", "executions"):
                cov[k] = cov.get(k, 0) + res.get(k, 0)
            cov["traces_validated_against_impl"] = cov.get("traces_validated_against_impl", 0) + res.get("executions", 0)
            cov["evaluations"] = cov.get("evaluations", 0) + res.get("executions", 0)
            cov["configurations"] = cov.get("configurations", 0) + 1
            forks += (res.get("counters") or [0] * 6)[5]
            cov.setdefault("per_configuration", []).append(
                dict(params=params, bound=0 if q else 1, build="plain", harness="h_life", executions=res.get("executions"),
                     completed_bound=res.get("completed_bound"), wall_s=round(res.get("elapsed", 0), 2)))
    cov["forked_cleanups_observed"] = forks
    c08.cleanup_scratch()


def run(chk, tier, jobs, deadline):
    chk.assumptions += ASSUME
    chk.assumptions.append("control interface: 1-3 control sessions kept open (the third beyond the two-entry session table) after "
                           "all their requests were answered and read; readiness is judged after the control interface has been "
                           "serviced until it has nothing left to do (at most 8 rounds of 257 xcm_finish calls)")
    msgfamily.run_configs(chk, "h_msg", configs(tier), PREFIXES, jobs,
                          deadline or (420 if tier == "quick" else 1500),
                          counter_names={0: "quiescent_points_evaluated"})
    run_ctl_part(chk, tier, jobs)
    run_fork_part(chk, tier, jobs)
