"""C16 - readiness is sound: one stable descriptor that is quiet when idle.

The readiness oracle is evaluated at the final quiescent state (both scripts complete, both sides
flushed, everything sent has been received) of EVERY execution explored, i.e. after every mix of
partial I/O and every interleaving inside the bound; xcm_fd is sampled after every API call."""
from checks import msgfamily

LEVEL = "model_checking"
PREFIXES = ("C16/",)

ASSUME = [
    "the readiness clauses are evaluated only in the situations the property names (idle + flushed pair; after "
    "EAGAIN; server with nothing pending; already-met conditions); busy wake-ups elsewhere are INFO",
    "AF_UNIX delivery is synchronous, so no settle window is needed; the descriptor is polled three times anyway",
    "histories: all executions with <= D deviations of the listed scenarios",
]


def configs(tier):
    q = tier == "quick"
    c = []
    M = "cnt=0,prop=C16,probe=1"
    for tp, dq, dt in (("tcp", 3, 4), ("btcp", 3, 4), ("ux", 3, 4), ("uxf", 3, 4), ("utls", 3, 4),
                       ("tls", 2, 3), ("utlstls", 2, 3), ("btls", 2, 3)):
        bs = tp in ("btcp", "btls")
        scripts = (("S3", "spec"), ("S3", "strict")) if bs else \
            (("T1s", "spec"), ("T2", "loop"), ("T6", "strict"), ("T3", "spec"))
        for script, style in scripts:
            d = dq if q else dt
            c.append(("tp=%s,script=%s,style=%s,%s" % (tp, script, style, M), d))
    return c


def run(chk, tier, jobs, deadline):
    chk.assumptions += ASSUME
    msgfamily.run_configs(chk, "h_msg", configs(tier), PREFIXES, jobs,
                          deadline or (420 if tier == "quick" else 2700),
                          counter_names={0: "quiescent_points_evaluated"})
