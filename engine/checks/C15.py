"""C15 - threads using different sockets do not interfere.

Deciding step: for every scenario of h_thr (2-3 application threads with their OWN sockets running scripts
of XCM calls over ux, tcp and tls, plus a synchronised hand-over of a socket between threads) the explorer
enumerates EVERY schedule with at most D preemptions, D = 2 (quick) / 3 (thorough, two-thread scenarios).
Scheduling points: every pthread_mutex_lock made in the link (util.c ut_mutex_lock: active_fd_lock,
next_id_lock, the SSL_CTX cache lock; the harness' hand-over mutex) with modelled ownership (a thread that
wants a held lock is disabled until it is released) and every shim system call issued inside an XCM call.
Oracles: see the head of harness/h_thr.c (shared eventfd pool, SSL_CTX cache, certificate identity,
socket ids, per-thread delivery, end state, deadlock, crash).

Complement (NOT the deciding step, labelled as such in the evidence): the same thread bodies as free-running
pthreads in a clang ThreadSanitizer build on real ux/loopback sockets, N repetitions per scenario; any
ThreadSanitizer report whose stacks touch the XCM sources is a violation.
"""
import json
import os
import re
import subprocess
import sys
import time
from concurrent.futures import ThreadPoolExecutor

sys.path.insert(0, os.path.dirname(os.path.dirname(os.path.abspath(__file__))))
import build  # noqa: E402
import harnesses  # noqa: E402
from checks import msgfamily  # noqa: E402

LEVEL = "model_checking"
PREFIXES = ("C15/", "crash/")

EXTRA_WRAPS = ["pthread_mutex_lock", "pthread_mutex_unlock", "active_fd_get", "active_fd_put",
               "ctx_store_get_ctx", "ctx_store_put", "SSL_CTX_new", "SSL_CTX_free", "SSL_new", "SSL_free",
               "xcm_tp_socket_create",
               # scheduling points at the OpenSSL entry points of library initialisation / TLS socket creation
               "OPENSSL_init_ssl", "BIO_get_new_index", "BIO_meth_new", "BIO_meth_set_write", "BIO_meth_set_read",
               "BIO_meth_set_ctrl", "BIO_meth_set_create", "BIO_meth_set_destroy", "BIO_new", "SSL_set_bio"]

ASSUME = [
    "schedules are enumerated up to the stated number of PREEMPTIONS (switching away from a runnable thread); switches "
    "forced by a finished or lock-blocked thread are free; code between two scheduling points runs atomically",
    "scheduling points: before every pthread_mutex_lock in the link and at every shim system call inside an XCM call "
    "(pts=all), and at the OpenSSL entry points the library calls for initialisation and TLS socket creation "
    "(OPENSSL_init_ssl, BIO_get_new_index, BIO_meth_new, BIO_meth_set_*, BIO_new; SSL_set_bio under pts=all) - no TLS "
    "socket exists before the threads start, so they create the process's first TLS sockets concurrently; "
    "in the scenarios marked pts=dep only at calls that allocate/release descriptor numbers or touch objects "
    "another thread can reach (socket, accept, eventfd, epoll_create1, timerfd_create, fopen, close, epoll_ctl, bind, listen, "
    "connect) - send/recv/sockopt calls on a thread's own connection are independent of all actions of other threads",
    "the cooperative scheduler is sequentially consistent and its hand-offs are happens-before edges: weak-memory effects and "
    "plain data races are NOT decided by the enumeration; the free-running ThreadSanitizer pass (a sampling complement, "
    "not exhaustive) looks for the latter",
    "no environment deviations (short I/O, EAGAIN, faults) are offered in this check: the schedule is the only nondeterminism",
    "the SSL_CTX cache is not primed: contexts are created and destroyed inside the explored region",
    "races inside OpenSSL/libc (no XCM frame in either stack) are not XCM's and are reported as INFO only",
    "task threads are real pthreads, so thread-local library/OpenSSL state (the per-thread OpenSSL error queue) is per "
    "application thread as in a real program; logging is off (no XCM_DEBUG); the TLS-failure scenarios first let the "
    "client end read once (post-handshake records consumed) so that the later receive on it is truly idle",
    "windows between two atomic accesses (or any two instructions) that contain no lock operation and no system call are "
    "invisible to the enumeration: there is no scheduling point inside them (e.g. a load and a store of next_id inside "
    "get_next_sock_id, a static function that --wrap cannot reach; a point before the wrapped xcm_tp_socket_create does not "
    "split it) and, if every access is atomic, ThreadSanitizer is silent too; for the socket-id allocator a free-running "
    "STRESS complement (sampling, not exhaustive) looks for lost updates: N threads released by a barrier create and close "
    "cheap sockets and every id handed out in the run must be distinct ('socket id, unique on a per-process basis')",
]

FULL = "SCAMGcas"
FREE_WRAPS = ["xcm_tp_socket_create"]     # the free-running builds keep the socket-id ledger only

# socket-id stress (free-running complement): (build variant, threads, sockets per round, rounds quick, rounds thorough)
STRESS = [("plain", 8, 4, 4000, 12000), ("tsan", 8, 4, 2000, 6000), ("plain", 4, 8, 2000, 6000)]


def two(tp0, tp1, s0=FULL, s1=FULL, extra=""):
    return "t0=%s:%s,t1=%s:%s%s" % (tp0, s0, tp1, s1, extra)


def scenarios(tier):
    """(params, preemption bound[, build variant]) - most important first (a deadline cuts from the end)"""
    DEP = ",pts=dep"
    if tier == "quick":
        return [
            (two("tcp", "tcp", "SCcs", "SCcs"), 2),                   # eventfd pool created/destroyed concurrently
            (two("tls/a", "tls/a", "Ss", "Ss"), 2),                   # one shared SSL_CTX cache entry
            (two("tls/a", "tls/b", "Ss", "Ss"), 2),                   # two entries
            (two("tcp", "tcp"), 2),                                   # full life cycle
            (two("ux", "ux"), 2),
            (two("tls/a", "tls/a", extra=DEP), 2),
            (two("tls/a", "tls/b", extra=DEP), 2),
            (two("tls/a", "tls/a", "SsSs", "SCcs"), 2),
            (two("tcp", "tcp", "SCAHWras", "TGmcD"), 2),              # hand-over
            (two("ux", "tcp", "SCAHWras", "SCcsTGmcD"), 2),
            (two("tls/a", "tls/b", "SCAHWras", "SCcsTGmcD", extra=DEP), 2),
            # a TLS failure on a socket of a thread's own (junk peer F / refused certificate B) must not disturb
            # another healthy connection used by that thread afterwards - its own, or one handed over to it
            (two("tls/a", "tls/a", "SCAMNHWnEas", "FTiDVqc", extra=DEP), 2),
            (two("tls/a", "tcp", "SCAMNFiBjMcas", "SCcs", extra=DEP), 1),
            (two("btls/a", "btls/a", "SCAMNHWnEas", "FTiDVqc", extra=DEP), 1),
            ("t0=tls/a:Ss,t1=tls/a:Ss,t2=tls/a:Ss", 2),               # three threads
            (two("tcp", "tcp", "SCcs", "SCcs"), 1, "asan"),
        ]
    return [
        # <= 3 preemptions, two threads
        (two("tcp", "tcp", "SCcs", "SCcs"), 3),
        (two("tls/a", "tls/a", "Ss", "Ss"), 3),
        (two("tls/a", "tls/b", "Ss", "Ss"), 3),
        (two("tcp", "tcp"), 3),
        (two("ux", "ux"), 3),
        (two("tls/a", "tls/a", extra=DEP), 3),
        (two("tls/a", "tls/b", extra=DEP), 3),
        (two("tls/a", "tls/a", "SsSs", "SCcs"), 3),
        (two("tcp", "tcp", "SCAHWras", "TGmcD"), 3),
        (two("ux", "tcp", "SCAHWras", "SCcsTGmcD"), 3),
        (two("tls/a", "tls/b", "SCAHWras", "SCcsTGmcD", extra=DEP), 3),
        (two("tls/a", "tls/b", "SCcs", "SCcs", extra=DEP), 3),
        # a TLS failure in a thread vs. its other / taken-over healthy connections (thread-local OpenSSL state)
        (two("tls/a", "tls/a", "SCAMNHWnEas", "FTiDVqc", extra=DEP), 3),
        (two("tls/a", "tls/a", "SCAMNHWnEas", "FTiDVqc"), 2),
        (two("tls/a", "tls/a", "SCAMNHWnEas", "SBsTiDVqc", extra=DEP), 2),
        (two("tls/a", "tcp", "SCAMNFiMBijMcas", "SCcs", extra=DEP), 2),
        (two("btls/a", "btls/a", "SCAMNHWnEas", "FTiDVqc", extra=DEP), 2),
        (two("btls/a", "ux", "SCAMNFijMBiMcas", "SCcs", extra=DEP), 2),
        (two("tls/a", "tls/b", "SCAMNFijMcas", "SCAMNFijMcas", extra=DEP), 2),
        # <= 2 preemptions: scheduling points at every shim call in the TLS scenarios, longer scripts, mixes
        (two("tls/a", "tls/a"), 2),
        (two("tls/a", "tls/b"), 2),
        (two("tcp", "tcp", "SCAcaCAcas", "SCAcas"), 2),
        (two("tls/a", "tls/b", "SCcs", "SCcs"), 2),
        (two("tcp", "tls/a", "SCAMNcas", "SCAcas"), 2),
        (two("ux", "tcp", "SsSCAMcas", "SCAMNGcas"), 2),
        (two("tcp", "tcp", "SCAMHWras", "SCAcasTGmcD"), 2),
        (two("tls/a", "tls/b", "SCAHWras", "SCcsTGmcD"), 2),
        # three threads, <= 2 preemptions
        ("t0=tls/a:Ss,t1=tls/a:Ss,t2=tls/a:Ss", 2),
        ("t0=tls/a:Ss,t1=tls/b:Ss,t2=tcp:SCcs", 2),
        ("t0=tcp:SCcs,t1=tcp:SCcs,t2=tcp:SCcs", 2),
        ("t0=tcp:SCAcas,t1=tcp:SCAcas,t2=ux:SCAMcas", 2),
        ("t0=tcp:SCAHWras,t1=tcp:TGmcD,t2=tcp:SCcs", 2),
        # memory-safety build (a stale context or list entry is a use-after-free)
        (two("tcp", "tcp", "SCcs", "SCcs"), 2, "asan"),
        (two("tls/a", "tls/a", "Ss", "SCcs"), 2, "asan"),
        (two("tcp", "tcp", "SCAHWras", "TGmcD"), 2, "asan"),
        (two("tls/a", "tls/b"), 1, "asan"),
    ]


TSAN_SCENARIOS = [
    (two("ux", "ux"), 40, 120),
    (two("tcp", "tcp"), 40, 120),
    (two("tcp", "tcp", "SCcs", "SCcs"), 40, 200),
    (two("tls/a", "tls/a"), 20, 60),
    (two("tls/a", "tls/b"), 20, 60),
    (two("tls/a", "tls/b", "Ss", "Ss"), 20, 100),
    (two("tcp", "tcp", "SCAHWras", "TGmcD"), 20, 60),
    ("t0=tcp:SCAcas,t1=tls/a:SCAcas,t2=ux:SCAMcas", 20, 60),
    (two("tls/a", "tls/a", "SCAMNHWnEas", "FTiDVqc"), 10, 40),
    (two("btls/a", "tls/a", "SCAMNFiBjMcas", "SCAMNFijMcas"), 10, 40),
    ("t0=tls/a:Ss,t1=tls/a:Ss,t2=tls/b:Ss", 20, 100),
]

TSAN_OPTS = "halt_on_error=0:exitcode=66:second_deadlock_stack=1:report_signal_unsafe=0"


def check_pki(chk):
    msgfamily.ensure_pki()
    try:
        with open(os.path.join(msgfamily.PKI, "manifest.json")) as f:
            sets = json.load(f)["sets"]
        if sets["good_a"]["cn"] != "alpha.verif.test" or sets["good_b"]["cn"] != "bravo.verif.test":
            chk.broke("pki: the certificate sets good_a/good_b do not carry the CNs h_thr.c expects")
    except Exception as e:  # noqa: BLE001
        chk.broke("pki manifest unreadable: %s" % e)


def parse_tsan(err, repo):
    """-> list of (signature, text, is_xcm)"""
    out = []
    for blk in err.split("=================="):
        if "WARNING: ThreadSanitizer" not in blk:
            continue
        m = re.search(r"SUMMARY: ThreadSanitizer: ([a-z A-Z-]+?) (\S+?):\d+(?::\d+)? in (\S+)", blk)
        if m:
            kind, where, fn = m.group(1).strip(), m.group(2), m.group(3)
        else:
            m2 = re.search(r"WARNING: ThreadSanitizer: ([^(\n]+)", blk)
            kind, where, fn = (m2.group(1).strip() if m2 else "report"), "", "unknown"
        kind = re.sub(r"[^a-z]+", "-", kind.lower()).strip("-")
        is_xcm = (repo in blk) or ("/libxcm/" in blk) or ("/common/util.c" in blk)
        in_harness_only = not is_xcm and "h_thr.c" in blk
        sig = "C15/tsan/%s/in=%s" % (kind, fn)
        out.append((sig, blk.strip()[:3500], is_xcm, in_harness_only))
    return out


def run_tsan_one(exe, params, reps, timeout_s):
    env = dict(os.environ)
    env["TSAN_OPTIONS"] = TSAN_OPTS
    cmd = [exe, "--params", params + ",pki=" + msgfamily.PKI, "--reps", str(reps)]
    t0 = time.time()
    try:
        r = subprocess.run(cmd, capture_output=True, env=env, timeout=timeout_s)
        rc, out, err = r.returncode, r.stdout.decode(errors="replace"), r.stderr.decode(errors="replace")
        timed_out = False
    except subprocess.TimeoutExpired as e:
        rc, out, err = -9, (e.stdout or b"").decode(errors="replace"), (e.stderr or b"").decode(errors="replace")
        timed_out = True
    return dict(params=params, reps=reps, rc=rc, out=out, err=err, wall=time.time() - t0, timed_out=timed_out,
                cmd="TSAN_OPTIONS=%s %s --params '%s' --reps %d" % (TSAN_OPTS, exe, params + ",pki=" + msgfamily.PKI, reps))


def run_tsan(chk, tier, jobs, deadline_s):
    exe = build.build_harness("h_thr", ["harness/h_thr.c"], variant="tsan", wraps=FREE_WRAPS,
                              extra_defs=["-DH_THR_TSAN=1"], cares_stub=False)
    q = tier == "quick"
    todo = [(p, rq if q else rt) for p, rq, rt in TSAN_SCENARIOS]
    per = []
    total_reps = 0
    reports = 0
    with ThreadPoolExecutor(max_workers=max(1, min(jobs // 3, 5))) as ex:
        futs = [ex.submit(run_tsan_one, exe, p, n, max(20, deadline_s)) for p, n in todo]
        for f in futs:
            r = f.result()
            done = re.search(r"tsan-pass reps=(\d+) threads=(\d+) harness_failures=(\d+)", r["out"])
            entry = dict(scenario=r["params"], repetitions_requested=r["reps"], rc=r["rc"], wall_s=round(r["wall"], 2),
                         completed=bool(done))
            reps_done = int(done.group(1)) if done else 0
            total_reps += reps_done
            found = parse_tsan(r["err"], build.REPO)
            entry["tsan_reports"] = len(found)
            reports += len(found)
            for sig, text, is_xcm, harness_only in found:
                if harness_only:
                    chk.broke("tsan pass: ThreadSanitizer report inside the harness itself: %s" % text[:600])
                elif is_xcm:
                    chk.finding(sig, "ThreadSanitizer report in the free-running pass of the thread bodies "
                                "(scenario %s):\n%s" % (r["params"], text[:1800]),
                                dict(harness="h_thr.tsan", params=r["params"], build="tsan", report=text,
                                     replay_cmd=r["cmd"],
                                     note="free-running pass: the report appears with high probability, not "
                                          "deterministically; repeat or raise --reps"))
                else:
                    chk.info("tsan-report-outside-xcm", sig + ": " + text[:300])
            for m in re.finditer(r"STRESS-VIOLATION (\S+): ([^\n]*)", r["err"]):
                chk.finding(m.group(1), m.group(2), dict(harness="h_thr.tsan", params=r["params"], build="tsan",
                                                         replay_cmd=r["cmd"], note="free-running pass (sampling)"))
            for m in re.finditer(r"HARNESS-VIOLATION (\S+): ([^\n]*)", r["err"]):
                chk.finding(m.group(1) + "/free-running", m.group(2) + "  [free-running pass, scenario %s]" % r["params"],
                            dict(harness="h_thr.tsan", params=r["params"], build="tsan", replay_cmd=r["cmd"]))
            if r["timed_out"]:
                chk.deadline_hit = True
                entry["timed_out"] = True
            elif not done:
                # died: abort/segfault of the code under test in a free-running run
                sig = "C15/tsan/crash/rc=%s" % (r["rc"] if r["rc"] >= 0 else "signal%d" % -r["rc"])
                if not found:
                    chk.finding(sig, "the free-running pass died (rc %d) in scenario %s; stderr tail: %s" %
                                (r["rc"], r["params"], r["err"][-1500:]),
                                dict(harness="h_thr.tsan", params=r["params"], build="tsan", replay_cmd=r["cmd"],
                                     stderr=r["err"][-3000:]))
            per.append(entry)
    chk.add_cov(tsan_complement=dict(
        role="complement to the schedule enumeration (sampling, free-running, NOT exhaustive, not the deciding step)",
        build="clang -fsanitize=thread, no shim, real ux and loopback tcp/tls sockets, threads released by a barrier",
        scenarios=per, repetitions_completed=total_reps, reports=reports))
    return total_reps


def free_exe(variant):
    if variant == "tsan":
        return build.build_harness("h_thr", ["harness/h_thr.c"], variant="tsan", wraps=FREE_WRAPS,
                                   extra_defs=["-DH_THR_TSAN=1"], cares_stub=False)
    return build.build_harness("h_thr_free", ["harness/h_thr.c"], variant=variant, wraps=FREE_WRAPS,
                               extra_defs=["-DH_THR_TSAN=1"], cares_stub=False)


def run_stress(chk, tier):
    """free-running complement aimed at the socket-id allocator (lost updates between atomic accesses)"""
    q = tier == "quick"
    per = []
    sockets = 0
    env = dict(os.environ)
    env["TSAN_OPTIONS"] = TSAN_OPTS
    for variant, n, k, rq, rt in STRESS:
        exe = free_exe(variant)
        arg = "%d,%d,%d" % (n, k, rq if q else rt)
        cmd = [exe, "--stress", arg]
        t0 = time.time()
        try:
            r = subprocess.run(cmd, capture_output=True, env=env, timeout=300)
            rc, out, err = r.returncode, r.stdout.decode(errors="replace"), r.stderr.decode(errors="replace")
        except subprocess.TimeoutExpired:
            rc, out, err = -9, "", ""
            chk.deadline_hit = True
        m = re.search(r"stress-pass threads=(\d+) per_round=(\d+) rounds=(\d+) sockets=(\d+) duplicate_ids=(\d+) "
                      r"harness_failures=(\d+)", out)
        e = dict(build=variant, threads=n, sockets_per_round=k, rounds=rq if q else rt, rc=rc,
                 wall_s=round(time.time() - t0, 2), completed=bool(m))
        rcmd = "%s --stress %s" % (exe, arg)
        if m:
            e["socket_ids_recorded"] = int(m.group(4))
            e["duplicate_ids"] = int(m.group(5))
            sockets += int(m.group(4))
        for v in re.finditer(r"STRESS-VIOLATION (\S+): ([^\n]*)", err):
            chk.finding(v.group(1), v.group(2) + "  [free-running stress %s, %s build]" % (arg, variant),
                        dict(harness=os.path.basename(exe), params="--stress " + arg, build=variant, replay_cmd=rcmd,
                             note="free-running stress: sampling, the duplicate appears with high probability, "
                                  "not deterministically"))
        for v in re.finditer(r"HARNESS-VIOLATION (\S+): ([^\n]*)", err):
            chk.finding(v.group(1) + "/free-running", v.group(2), dict(harness=os.path.basename(exe),
                                                                       params="--stress " + arg, replay_cmd=rcmd))
        for sig, text, is_xcm, harness_only in (parse_tsan(err, build.REPO) if variant == "tsan" else []):
            if is_xcm:
                chk.finding(sig, "ThreadSanitizer report in the socket-id stress:\n" + text[:1800],
                            dict(harness=os.path.basename(exe), params="--stress " + arg, build=variant, replay_cmd=rcmd))
            elif harness_only:
                chk.broke("socket-id stress: ThreadSanitizer report inside the harness: %s" % text[:600])
        if not m and rc != -9:
            chk.finding("C15/socket-id/stress-crashed/free-running", "the socket-id stress died (rc %d): %s" %
                        (rc, err[-1200:]), dict(harness=os.path.basename(exe), replay_cmd=rcmd))
        per.append(e)
    chk.add_cov(socket_id_stress_complement=dict(
        role="complement to the schedule enumeration (sampling, free-running, NOT exhaustive, not the deciding step)",
        oracle="every id handed out by xcm_tp_socket_create during the run is distinct (unique per process)",
        runs=per, socket_ids_recorded=sockets))


def run(chk, tier, jobs, deadline):
    chk.assumptions += ASSUME
    check_pki(chk)
    q = tier == "quick"
    dl = deadline or (420 if q else 2700)
    t0 = time.time()
    cfgs = []
    for c in scenarios(tier):
        params = c[0] + ",pki=" + msgfamily.PKI
        cfgs.append((params,) + tuple(c[1:]))
    # the complement first (short, bounded), then the enumeration with the remaining time
    run_tsan(chk, tier, jobs, dl * 0.2)
    run_stress(chk, tier)
    CN = {1: "script_operations_completed", 2: "lock_acquisitions_that_had_to_wait",
          3: "scheduling_points_executed", 4: "ctx_cache_hits_while_held",
          5: "eventfd_handed_to_second_user", 6: "ssl_ctx_created",
          7: "pool_eventfds_created", 8: "mutex_lock_calls_modelled"}
    # run_configs caps every configuration at three times its even share of the time left; the few big <= 3
    # enumerations (full life cycles) would be cut by that on a loaded machine although the tier as a whole is far
    # from its deadline, so they run as a group of their own first
    heavy = [c for c in cfgs if c[1] >= 3 and c[0].count(FULL) == 2]
    rest = [c for c in cfgs if c not in heavy]
    parts = []
    for group in (heavy, rest):
        if not group:
            continue
        left = dl - (time.time() - t0)
        msgfamily.run_configs(chk, "h_thr", group, PREFIXES, jobs, max(30, left),
                              extra_build=dict(extra_wraps=EXTRA_WRAPS), counter_names=CN)
        parts.append(bool(chk.coverage.get("exhaustive")))
    chk.add_cov(exhaustive=all(parts) and not chk.deadline_hit)
    bounds = sorted(set(c[1] for c in cfgs))
    chk.add_cov(preemption_bounds=bounds,
                bound_semantics="every schedule with <= bound preemptions per scenario (see per_configuration)",
                scenarios_two_thread=sum(1 for c in cfgs if "t2=" not in c[0]),
                scenarios_three_thread=sum(1 for c in cfgs if "t2=" in c[0]))


def prepare_replay(art):
    if str(art.get("harness", "")).startswith("h_thr_free"):
        free_exe(art.get("build", "plain"))
    elif art.get("build") == "tsan":
        build.build_harness("h_thr", ["harness/h_thr.c"], variant="tsan", wraps=FREE_WRAPS,
                            extra_defs=["-DH_THR_TSAN=1"], cares_stub=False)
    else:
        harnesses.build_explorer_harness("h_thr", variant=art.get("build", "plain"), extra_wraps=EXTRA_WRAPS)
