"""C10 - attribute reads and writes are memory-safe and type-checked.

Exhaustive enumeration of INPUTS against the real code (harness h_attr, AddressSanitizer build): for
sockets of every transport in every state reachable through the envshim (empty deviation menu), every
attribute name x every capacity x every getter, and every name x every value type x length x value for
xcm_attr_set (and, for sockets that are not yet connected/bound, through the attribute map of
xcm_connect_a / xcm_server_a / xcm_accept_a).  See harness/h_attr.c for the memory discipline (canary
buffer with two fill patterns, then an exactly sized heap block) and the oracle."""
import json
import os
import re
import shutil
import subprocess
import sys
import time
from concurrent.futures import ThreadPoolExecutor

sys.path.insert(0, os.path.dirname(os.path.dirname(os.path.abspath(__file__))))
import build  # noqa: E402
import harnesses  # noqa: E402
from checks import msgfamily  # noqa: E402

LEVEL = "model_checking"

NAMES_FILE = os.path.join(build.BUILD, "gen", "C10-attr-names.txt")

TCP_STATES = ("server", "resolving", "connecting", "handshaking", "handshaking-srv", "established", "closing-c",
              "closing-s", "closed-c", "closed-s", "reset-c", "reset-s", "conn-timeout", "dns-timeout")
UX_STATES = ("server", "established", "closing-c", "closing-s", "closed-c", "closed-s", "reset-c", "reset-s")
LEGC_STATES = ("established", "closing-c", "closed-c", "reset-c")
LEGS_STATES = ("handshaking-srv", "established", "closing-s", "closed-s", "reset-s")
TPS = ("ux", "uxf", "tcp", "btcp", "tls", "btls", "utls", "utlsc", "utlss")
TLS_TPS = ("tls", "btls", "utls", "utlsc", "utlss")
FRESH = ("fresh-conn", "fresh-server", "fresh-accept")

ASSUME = [
    "sockets are brought into their states deterministically through the envshim with an empty deviation menu "
    "(emulated TCP, stub resolver, virtual clock); the check enumerates inputs, not schedules",
    "name universe per socket = names reported by xcm_attr_get_all + every name of common/xcm_attr_names.h + the "
    "attribute tables of xcm.h + list elements [i] for i <= len+1 + interior prefixes + a malformed/limit family "
    "(empty, dots, brackets, bad indices, 63..127 components, 254..4096 bytes, format directives, odd bytes)",
    "which values are 'wrong' is taken from xcm.h and plain sense only (negative times/timeouts/scope, scaled values "
    "beyond INT_MAX, unknown service/algorithm words, names with blanks); other values of the right type and length may "
    "succeed or be rejected, but a rejection (EINVAL/EACCES/ENOENT) must leave xcm_attr_get_all unchanged",
    "DESIGN 4.1: a typed getter of another type whose value also does not fit may answer ENOENT or EOVERFLOW; interior "
    "nodes may answer ENOENT or EACCES; when several set errors apply any applicable errno is accepted; index spellings "
    "like [01], [+1], [ 1] are only checked for memory safety",
    "xcm.blocking=true is not set on sockets whose connection is still under way (the switch waits for the peer by "
    "definition) nor through the attribute map of a creating call; attribute type values outside the enum and "
    "fixed-size types with a wrong length in an xcm_attr_map (both asserted preconditions of the API) are not passed",
    "findings of the same root cause collapse: capacity overruns and wrong results are named after the attribute when "
    "plain xcm_attr_get shows them, after the wrapper otherwise; crashes on non-attribute names after the name class",
]


def asan_env():
    env = harnesses.asan_env()
    # a sanitizer report ends the child with an exit code (SIGABRT costs seconds in this sandbox); no
    # symbolizer while enumerating - the replay command symbolizes
    env["ASAN_OPTIONS"] = ("detect_leaks=0:abort_on_error=0:exitcode=77:detect_stack_use_after_return=1:"
                           "allocator_may_return_null=1:handle_abort=0:symbolize=0")
    env["UBSAN_OPTIONS"] = "halt_on_error=1:abort_on_error=0:print_stacktrace=0"
    return env


def replay_env_prefix():
    return ("ASAN_OPTIONS=detect_leaks=0:abort_on_error=0:exitcode=77:detect_stack_use_after_return=1:"
            "allocator_may_return_null=1:handle_abort=0:symbolize=1 "
            "UBSAN_OPTIONS=halt_on_error=1:abort_on_error=0:print_stacktrace=1")


def write_names_file():
    hdr = os.path.join(build.REPO, "common", "xcm_attr_names.h")
    if not os.path.exists(hdr):
        hdr = os.path.join(build.REPO, "include", "xcm_attr_names.h")
    names = re.findall(r'#define\s+XCM_ATTR_\w+\s+"([^"]*)"', open(hdr).read())
    os.makedirs(os.path.dirname(NAMES_FILE), exist_ok=True)
    tmp = NAMES_FILE + ".tmp%d" % os.getpid()
    with open(tmp, "w") as f:
        f.write("\n".join(names) + "\n")
    os.replace(tmp, NAMES_FILE)
    return len(names)


def states_of(tp):
    if tp in ("ux", "uxf"):
        return UX_STATES
    if tp == "utlsc":
        return LEGC_STATES
    if tp == "utlss":
        return LEGS_STATES
    return TCP_STATES


def cell_list(tier):
    q = tier == "quick"
    lite = "names=own,wrapcaps=bnd,setlite=1,capall=300"
    cells = []
    for tp in TPS:
        for st in states_of(tp):
            base = "tp=%s,state=%s,ip=4,cred=file" % (tp, st)
            if q:
                # the whole name universe (unknown, foreign, malformed names included) on the established and the
                # server sockets of one transport per family; elsewhere the socket's own and documented names,
                # and a peer certificate with two names instead of thirteen
                full = st in ("established", "server") and tp in ("ux", "tcp", "tls")
                cells.append(base + (",capall=700" if full else ",srvset=good_b," + lite))
            else:
                # thorough: every capacity of every value, every wrapper at every capacity, the full value/length
                # family; the whole name universe with a snapshot comparison after every single rejected set on
                # the established and server sockets of every transport, the socket's own names elsewhere
                full = st in ("established", "server")
                cells.append(base + (",capall=8192,snap=each" if full else ",names=own,capall=8192"))
    # IPv6 (ipv6.scope exists only there) and credentials by value (multi-KB binary attributes)
    for tp in TPS:
        if tp in ("ux", "uxf"):
            continue
        sts = ("server", "connecting", "established") if q else states_of(tp)
        for st in sts:
            if st not in states_of(tp):
                continue
            if q and tp not in ("tcp", "tls", "btcp"):
                continue
            cells.append("tp=%s,state=%s,ip=6,cred=%s,%s" % (tp, st, "file", lite if q else "names=own,capall=8192"))
    for tp in TLS_TPS:
        sts = ("server", "established") if q else states_of(tp)
        for st in sts:
            if st not in states_of(tp):
                continue
            if q and tp not in ("tls", "utlss"):
                continue
            extra = lite if q else "names=own,capall=8192"
            cells.append("tp=%s,state=%s,ip=4,cred=value,srvset=big_tc,%s" % (tp, st, extra))
    if not q:
        # a peer certificate with 70 names: kilobyte-sized string attributes and long lists
        for tp in ("tls", "btls"):
            cells.append("tp=%s,state=established,ip=4,cred=value,srvset=san_70,names=own,capall=8192,"
                         "wrapcaps=bnd,setlite=1" % tp)
    # sockets that are not yet connected / bound: through the attribute map of the creating call
    for tp in (("ux", "tcp", "tls") if q else ("ux", "uxf", "tcp", "btcp", "tls", "btls", "utls")):
        for st in FRESH:
            if q and tp == "tls" and st == "fresh-accept":
                continue
            cells.append("tp=%s,state=%s,ip=4,cred=file%s" % (tp, st, ",names=own" if q else ""))
    if not q:
        cells.append("tp=tcp,state=fresh-conn,ip=6,cred=file,names=own")
        cells.append("tp=tls,state=fresh-server,ip=6,cred=value,names=own")
    return cells


def run_cell(exe, cell, rundir, env, timeout):
    cmd = [exe, "--cell", cell, "--pki", msgfamily.PKI, "--names", NAMES_FILE, "--run", rundir]
    t0 = time.time()
    try:
        r = subprocess.run(cmd, capture_output=True, env=env, timeout=timeout)
        out, rc, err = r.stdout.decode(errors="replace"), r.returncode, r.stderr.decode(errors="replace")
    except subprocess.TimeoutExpired as e:
        return dict(cell=cell, skipped=True, why="tier deadline reached while the cell was running (%ds)" % timeout)
    recs = []
    for line in out.splitlines():
        try:
            recs.append(json.loads(line))
        except ValueError:
            pass
    return dict(cell=cell, rc=rc, recs=recs, stderr=err[-1500:], wall=time.time() - t0)


def replay_cmd(exe, cell, one):
    return "%s %s --cell '%s' --pki %s --names %s --one '%s'" % (replay_env_prefix(), exe, cell, msgfamily.PKI,
                                                                NAMES_FILE, one)


def prepare_replay(art):
    msgfamily.ensure_pki()
    write_names_file()
    harnesses.build_explorer_harness("h_attr", variant="asan")


def run(chk, tier, jobs, deadline):
    chk.assumptions += ASSUME
    q = tier == "quick"
    msgfamily.ensure_pki()
    nhdr = write_names_file()
    exe = harnesses.build_explorer_harness("h_attr", variant="asan")
    env = asan_env()
    cells = cell_list(tier)
    dl = deadline or (900 if q else 3300)
    t_end = time.time() + dl
    rundir = os.path.join(harnesses.RUN_DIR, "C10-%d" % os.getpid())
    os.makedirs(rundir, exist_ok=True)
    results = []

    def work(cell):
        left = t_end - time.time()
        if left < 5:
            return dict(cell=cell, skipped=True)
        return run_cell(exe, cell, rundir, env, int(left) + 20)

    # the expensive cells first
    def weight(c):
        w = 1
        if "names=own" not in c:
            w += 4
        if any(("tp=%s," % t) in c for t in TLS_TPS):
            w += 3
        return -w
    order = sorted(cells, key=weight)
    try:
        with ThreadPoolExecutor(max_workers=max(1, jobs)) as ex:
            results = list(ex.map(work, order))
    finally:
        shutil.rmtree(rundir, ignore_errors=True)

    tot = {}
    sig_count = {}
    sig_first = {}
    samples = []
    per_cell = []
    done = 0
    for r in results:
        if r.get("skipped"):
            chk.deadline_hit = True
            per_cell.append(dict(cell=r["cell"], skipped=r.get("why", "tier deadline reached")))
            continue
        cell = r["cell"]
        kinds = [x.get("t") for x in r["recs"]]
        stats = next((x for x in r["recs"] if x.get("t") == "stats"), None)
        for x in r["recs"]:
            t = x.get("t")
            if t == "broken":
                chk.broke("cell %s: state could not be built: %s" % (cell, x.get("text")))
            elif t == "finding":
                sig_first.setdefault(x["sig"], (x["text"], cell, x.get("one", "")))
            elif t == "info":
                chk.info(x["key"], x["text"])
            elif t == "sample" and len(samples) < 12:
                samples.append(x["text"][:700])
        if "done" not in kinds or stats is None:
            if "broken" not in kinds:
                chk.broke("cell %s: harness ended without result (rc=%s): %s" % (cell, r["rc"], r["stderr"][-600:]))
            continue
        done += 1
        for k, v in stats.items():
            if isinstance(v, int):
                tot[k] = tot.get(k, 0) + v
        for s, n in stats.get("sigs", {}).items():
            sig_count[s] = sig_count.get(s, 0) + n
        per_cell.append(dict(cell=cell, cells=stats["cells"], calls=stats["calls"], crashes=stats["crashes"],
                             findings=stats["findings"], wall_s=round(r["wall"], 1)))
    for sig in sorted(sig_count):
        text, cell, one = sig_first.get(sig, ("(text not kept)", "", ""))
        n = sig_count[sig]
        art = dict(harness="h_attr.asan", cell=cell, one=one, build="asan",
                   replay_cmd=replay_cmd(exe, cell, one) if cell else None)
        chk.finding(sig, "%s  [%d occurrence(s) over all cells]" % (text, n), art)
        chk.findings[sig]["count"] = n
    chk.add_cov(states=tot.get("cells", 0), transitions=tot.get("checked", 0),
                traces_validated_against_impl=tot.get("cells", 0), executions=done,
                evaluations=tot.get("calls", 0),
                cells_transport_state=len(cells), cells_completed=done,
                getter_cells=tot.get("get_cells", 0), setter_cells=tot.get("set_cells", 0),
                creation_map_cells=tot.get("fresh_cells", 0), library_calls=tot.get("calls", 0),
                oracle_checked_calls=tot.get("checked", 0), name_groups=tot.get("groups", 0),
                subject_sockets=tot.get("subjects", 0), get_success=tot.get("get_success", 0),
                get_eoverflow=tot.get("get_overflow", 0), get_other_failure=tot.get("get_fail", 0),
                set_success=tot.get("set_success", 0), set_rejected=tot.get("set_rejected", 0),
                set_failed_other_errno=tot.get("set_failed_other", 0), snapshots=tot.get("snapshots", 0),
                child_deaths=tot.get("crashes", 0), names_in_header=nhdr,
                bounds=dict(tier=tier, transports=list(TPS), states=dict(tcp_based=list(TCP_STATES), ux=list(UX_STATES)),
                            capacities="0..size+2 for values up to capall bytes (per cell), boundary set above",
                            set_lengths="0,1,size-1,size,size+1,4096"),
                per_cell=per_cell, samples=samples or ["(no cell completed)"],
                exhaustive=(done == len(cells)) and not chk.deadline_hit)
