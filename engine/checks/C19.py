"""C19 - attribute maps are finite maps; attribute paths are canonical.

Enumerator harness h_map (engine/harness/h_map.c), three exhaustive searches against the real
xcm_attr_map.c / attr_path.c of the working tree, all under AddressSanitizer + the memory-safety
subset of UBSan:

  bfs    explicit-state breadth-first search over the contents of two attribute maps (M1 and
         M2 = second map / clone / absent), de-duplicated by canonical form (the state is wholly visible
         through the public API).  Alphabet: add (generic and typed entry points) of every key x 10 values
         (5 types x 2, zero-length and 4 KB binaries, empty string, -0.0, a NaN), add with a value pointer
         obtained by lookup from either map (including the entry being replaced), del, clone, add_all in
         all four directions, destroy.  Every state is rebuilt by replaying its shortest history on fresh
         objects (replayed canonical form must equal the stored one); after every transition every
         observer is compared with a reference association list.
  paths  every string of length <= L over {a B 0 1 9 . [ ] - + space} plus the families
         pre + unit^k + suf (|unit| <= 3, k*|unit| <= 260: reaches the 255 byte and the 64 component
         limits), in both parse modes, through parse / inspect / len / print / re-parse / equal / equal_str /
         destroy, against an independent three-valued recogniser of the documented name syntax.
  large  scripted sequences over large key sets (up to 1000 / 3000 keys, 200+ byte names, names that
         are prefixes of each other, a 1 MB value) with the same observers.

A sanitizer abort / signal / hang in a worker is a finding attributed to the exact operation or string.
"""
import json
import os
import re
import shlex
import shutil
import subprocess
import time

import build

LEVEL = "model_checking"

VERIF = build.VERIF
RUN_ROOT = os.path.join(VERIF, "build", "run")
LOG_DIR = os.path.join(VERIF, "build", "logs")
REPO_SRCS = ("libxcm/core/xcm_attr_map.c", "libxcm/core/attr_path.c", "common/util.c", "libxcm/core/log.c")

ASSUME = [
    "map search: keys {a, ab} (quick) / {a, ab, b} (thorough) x 10 values (5 types x 2); every reachable state of "
    "the pair (M1, M2 or absent) is expanded with every applicable operation; larger key sets are covered by "
    "scripted (not exhaustive) sequences only",
    "path search: all strings up to the stated length over an 11 letter alphabet that contains every character "
    "the parser distinguishes (key characters, digits, '.', '[', ']', sign, space) plus the periodic families "
    "up to 263 bytes; other strings are not visited",
    "the documentation fixes neither the key character set nor the spelling of an index nor the component limit: "
    "odd key characters, indices with sign / space / leading zeros / 19+ digits, more than 64 components and "
    "the empty string may be accepted or rejected (three-valued recogniser); everything else is must-accept or "
    "must-reject",
    "libc (malloc, strtol, snprintf) is trusted; allocation failure is not injected",
    "leak observer = AddressSanitizer's count of currently allocated heap bytes before/after every transition "
    "and every parse/destroy pair",
]

HANG_KEYS = ("signal:24", "signal:14")
SAN_OPTS = "detect_leaks=0:quarantine_size_mb=16:allocator_may_return_null=1:handle_abort=0:" \
           "detect_stack_use_after_return=1"


def _env(symbolize):
    env = dict(os.environ)
    env["ASAN_OPTIONS"] = SAN_OPTS + (":symbolize=1" if symbolize else ":symbolize=0")
    env["UBSAN_OPTIONS"] = "print_stacktrace=1" + (":symbolize=1" if symbolize else ":symbolize=0")
    return env


def _build(variant):
    srcs = ["harness/h_map.c"] + [os.path.join(build.REPO, s) for s in REPO_SRCS]
    return build.build_harness("h_map", srcs, variant=variant, lib=False, libs=())


def prepare_replay(art):
    _build(art.get("variant", "asan"))


def _run_phase(chk, exe, args, crashdir, tag, timeout):
    """Run one search; returns the list of JSON records (or None if the harness itself failed)."""
    os.makedirs(LOG_DIR, exist_ok=True)
    log = os.path.join(LOG_DIR, "C19-%s-%s.jsonl" % (chk.tier, tag))
    cmd = [exe] + args + ["--crashdir", crashdir]
    t0 = time.time()
    try:
        with open(log, "w") as out:
            p = subprocess.run(cmd, stdout=out, stderr=subprocess.PIPE, env=_env(False), timeout=timeout)
    except subprocess.TimeoutExpired:
        chk.broke("h_map %s did not finish within %ds" % (" ".join(args), timeout))
        return None, 0.0
    wall = time.time() - t0
    recs = []
    with open(log) as f:
        for line in f:
            line = line.strip()
            if not line:
                continue
            try:
                recs.append(json.loads(line))
            except ValueError:
                chk.broke("h_map %s printed a line that is not JSON: %s" % (tag, line[:200]))
    if p.returncode != 0:
        chk.broke("h_map %s exited with %d: %s" % (" ".join(args), p.returncode, p.stderr.decode()[-1500:]))
        return None, wall
    if not any(r.get("kind") == "done" for r in recs):
        chk.broke("h_map %s ended without a 'done' record" % tag)
        return None, wall
    return recs, wall


def _crash_kind(key):
    if key.startswith("asan:"):
        return "AddressSanitizer: " + key[5:].split("@")[0]
    if key.startswith("ubsan:"):
        return "UndefinedBehaviorSanitizer: " + key[6:]
    if key in HANG_KEYS:
        return "no return within the CPU-time watchdog (SIGXCPU)"
    if key.startswith("signal:"):
        return "killed by signal " + key[7:]
    return "abnormal exit (" + key + ")"


def _replay_cmd(exe, rec, keys):
    """The command line that re-runs exactly this case in-process (and the bare argument list)."""
    rk, rp = rec["rkind"], rec["replay"]
    if rk == "o":
        args = ["--keys", str(keys), "--replay-ops", rp]
    elif rk == "q":
        partner, proot, s = rp.split("\n", 2)
        args = ["--root", str(1 if rec.get("root") else 0), "--partner", partner, "--partner-root", proot,
                "--one-path", s]
    else:
        args = []
        if rec.get("root", -1) in (0, 1):
            args += ["--root", str(rec["root"])]
        args += ["--one-path", rp]
    envs = "ASAN_OPTIONS=%s:symbolize=1 UBSAN_OPTIONS=print_stacktrace=1" % SAN_OPTS
    return envs + " " + " ".join(shlex.quote(a) for a in [exe] + args), args


def _scrub(text):
    """Drop what varies from run to run (pids, addresses, build ids) from a sanitizer report excerpt."""
    text = re.sub(r"==\d+==", "", text)
    text = re.sub(r"\s*\(BuildId: [0-9a-f]+\)", "", text)
    text = re.sub(r"0x[0-9a-f]{6,}", "0x..", text)
    text = re.sub(r"index \d+ out of bounds", "index N out of bounds", text)
    return text


def _confirm(exe, args, want_sig):
    """Re-run one case alone; returns (reproduced, excerpt of what the replay printed)."""
    try:
        p = subprocess.run([exe] + args, capture_output=True, env=_env(True), timeout=3600)
    except subprocess.TimeoutExpired:
        return want_sig is None, "replay did not return within 3600 s"
    out = p.stdout.decode(errors="replace")
    err = p.stderr.decode(errors="replace")
    if want_sig is None:        # a crash: must die again
        died = p.returncode not in (0, 1, 2) or "ERROR: AddressSanitizer" in err or "runtime error:" in err
        lines = [l for l in err.splitlines() if l.strip()]
        keep = [l for l in lines if "ERROR:" in l or "runtime error" in l or l.lstrip().startswith("#")][:9]
        return died, _scrub("\n".join(keep)) if keep else ("exit status %d" % p.returncode)
    return ("FINDING " + want_sig) in out, out[-1200:]


def _collect(chk, exe, variant, recs, keys, phase_tag):
    """Findings and crashes of one phase -> chk.finding()."""
    n = 0
    seen = set()
    for r in recs:
        k = r.get("kind")
        if k == "broke":
            chk.broke("h_map %s: %s" % (phase_tag, r["text"]))
        elif k == "finding":
            sig = r["sig"]
            if sig in seen:
                chk.finding(sig, r["text"])
                continue
            seen.add(sig)
            cmd, args = _replay_cmd(exe, r, keys)
            ok, excerpt = _confirm(exe, args, sig)
            if not ok:
                chk.broke("finding %s did not reproduce when replayed alone: %s" % (sig, cmd))
            chk.finding(sig, r["text"] + " [seen %d times in this search]" % r.get("count", 1),
                        dict(harness="h_map", variant=variant, phase=phase_tag, replay_cmd=cmd, reproduced=ok,
                             replay_output=excerpt))
            n += 1
        elif k == "crash":
            how = "hang" if r["key"] in HANG_KEYS else "crash"
            if r["rkind"] == "p":
                sig = "C19/path/%s/%s/%s" % (how, r["op"], r["shape"])
                what = "path \"%s\" (%s mode) in %s" % (r["replay"], "root" if r.get("root") else "relative", r["op"])
            elif r["op"] == "observer":
                sig = "C19/map/%s/in=%s" % (how, r["shape"])
                what = "%s, called after the operation history [%s]" % (r["shape"], r["replay"])
            elif r["op"] == "large-script":
                sig = "C19/map/%s/large-script/%s" % (how, r["shape"])
                what = "large-key-set script %s, step %s" % (r["replay"], r["shape"])
            else:
                sig = "C19/map/%s/op=%s" % (how, r["shape"])
                what = "operation history [%s] (the last operation is the %s)" % (r["replay"], r["shape"])
            text = "%s: %s [%d process deaths of this kind in this search]" % (_crash_kind(r["key"]), what, r["count"])
            if sig in seen:
                chk.finding(sig, text)
                continue
            seen.add(sig)
            cmd, args = _replay_cmd(exe, r, keys)
            ok, excerpt = _confirm(exe, args, None)
            if not ok:
                chk.broke("crash %s did not reproduce when replayed alone: %s" % (sig, cmd))
            chk.finding(sig, text + "\n" + excerpt,
                        dict(harness="h_map", variant=variant, phase=phase_tag, replay_cmd=cmd, reproduced=ok,
                             sanitizer_report=excerpt))
            n += 1
    return n


def _stats(recs, phase):
    for r in recs:
        if r.get("kind") == "stats" and r.get("phase") == phase:
            return r
    return {}


def _done(recs):
    for r in recs:
        if r.get("kind") == "done":
            return r
    return {}


def _path_samples(exe):
    out = []
    for root, s in ((1, "a.b[01].c"), (0, "[ +7].x-y"), (1, "tls.peer.cert.san.emails[2]"), (1, "a..b"), (0, ".a[1"),
                    (1, "a" + ".a" * 63)):
        p = subprocess.run([exe, "--root", str(root), "--one-path", s], capture_output=True, env=_env(True), timeout=60)
        lines = [l.strip() for l in p.stdout.decode(errors="replace").splitlines() if l.strip()]
        if len(lines) >= 2:
            out.append("%s -> %s" % (lines[0][:120], lines[1][:200]))
    return out


def run(chk, tier, jobs, deadline):
    chk.assumptions += ASSUME
    quick = tier == "quick"
    budget = deadline or (420 if quick else 1700)
    t_start = time.time()
    jobs = max(1, min(int(jobs), 64))
    keys = 2 if quick else 3
    maxlen = 5 if quick else 7
    variant = "asan"
    exe = _build(variant)

    crashdir = os.path.join(RUN_ROOT, "C19-%d" % os.getpid())
    shutil.rmtree(crashdir, ignore_errors=True)
    os.makedirs(crashdir)
    cov = dict(states=0, transitions=0, traces_validated_against_impl=0, executions=0, samples=[])
    exhaustive = True
    try:
        # --- large key sets (seconds) ---------------------------------------------------------
        recs, wall = _run_phase(chk, exe, ["--large", "--workers", str(jobs)] + ([] if quick else ["--thorough"]),
                                crashdir, "large", 900)
        if recs is not None:
            st = _stats(recs, "large")
            _collect(chk, exe, variant, recs, keys, "large")
            cov["large_scripts"] = st.get("scripts", 0)
            cov["large_scripts_completed"] = st.get("scripts_completed", 0)
            cov["large_max_keys"] = st.get("max_keys", 0)
            cov["large_operations"] = st.get("operations", 0)
            cov["large_observer_comparisons"] = st.get("observer_comparisons", 0)
            cov["large_wall_s"] = round(wall, 1)
            cov["transitions"] += st.get("operations", 0)
            cov["executions"] += st.get("scripts_completed", 0)
            cov["traces_validated_against_impl"] += st.get("scripts_completed", 0)
            if st.get("scripts_completed", 0) != st.get("scripts", -1):
                exhaustive = False

        # --- path strings -----------------------------------------------------------------------
        left = budget - (time.time() - t_start)
        pdl = max(20, int(left * 0.45))
        recs, wall = _run_phase(chk, exe, ["--paths", "--maxlen", str(maxlen), "--workers", str(jobs),
                                           "--deadline", str(pdl)], crashdir, "paths", pdl + 600)
        if recs is not None:
            st = _stats(recs, "paths")
            dn = _done(recs)
            _collect(chk, exe, variant, recs, keys, "paths")
            cov["path_maxlen"] = st.get("maxlen", 0)
            cov["path_short_strings"] = st.get("short_strings", 0)
            cov["path_family_strings"] = st.get("family_strings", 0)
            cov["path_distinct_inputs"] = st.get("distinct_inputs", 0)
            cov["path_evaluations"] = st.get("evaluations", 0)
            cov["path_library_calls"] = st.get("library_calls", 0)
            for k in ("accepted", "rejected", "must_accept_accepted", "must_reject_rejected", "either_accepted",
                      "either_rejected", "accepted_multi_component"):
                cov["path_" + k] = st.get(k, 0)
            cov["path_either_accepted_by_reason"] = st.get("either_accepted_by_reason", {})
            cov["path_quarantine_skipped"] = st.get("quarantine_skipped", 0)
            cov["path_process_deaths"] = dn.get("total_crashes", 0)
            cov["path_complete"] = bool(st.get("complete")) and st.get("quarantine_skipped", 0) == 0
            cov["path_wall_s"] = round(wall, 1)
            cov["states"] += st.get("distinct_inputs", 0)
            cov["transitions"] += st.get("evaluations", 0)
            cov["executions"] += st.get("evaluations", 0)
            cov["traces_validated_against_impl"] += st.get("evaluations", 0)
            if dn.get("deadline_hit"):
                chk.deadline_hit = True
            if not cov["path_complete"]:
                exhaustive = False

        # --- map BFS -------------------------------------------------------------------------
        # quick: keys {a,ab} under ASan.  thorough: the same, then keys {a,ab,b} in the plain build (the
        # three-key space costs ~3.5e8 transitions: ~15 core-minutes plain, ~4 core-hours under ASan).
        runs = [("asan", exe, 2)] if quick else [("asan", exe, 2), ("plain", _build("plain"), 3)]
        for i, (var, bexe, k) in enumerate(runs):
            left = budget - (time.time() - t_start)
            bdl = max(20, int(left - 10)) if i == len(runs) - 1 else max(20, int(left * 0.3))
            recs, wall = _run_phase(chk, bexe, ["--bfs", "--keys", str(k), "--workers", str(jobs),
                                                "--deadline", str(bdl)], crashdir, "bfs-k%d-%s" % (k, var), bdl + 900)
            if recs is None:
                exhaustive = False
                continue
            st = _stats(recs, "bfs")
            dn = _done(recs)
            _collect(chk, bexe, var, recs, k, "bfs-k%d-%s" % (k, var))
            cov["map_bfs_runs"] = cov.get("map_bfs_runs", []) + [dict(
                keys=k, build_variant=var, state_space=st.get("state_space", 0),
                operations_in_alphabet=st.get("ops", 0), states_visited=st.get("states_visited", 0),
                states_expanded=st.get("states_expanded", 0), bfs_levels=st.get("levels", 0),
                level_sizes=st.get("level_sizes", ""), frontier_empty=bool(st.get("frontier_empty")),
                transitions=st.get("transitions", 0), observer_comparisons=st.get("observer_comparisons", 0),
                history_replays=st.get("rebuilds", 0),
                leak_checks=st.get("leak_checks", 0) if st.get("leak_check_enabled") else 0,
                transitions_not_applicable=st.get("disabled", 0), crashed_transitions=st.get("crashed_transitions", 0),
                quarantine_skipped=st.get("quarantine_skipped", 0), unexpandable_states=st.get("unexpandable_states", 0),
                deadline_hit=bool(dn.get("deadline_hit")), wall_s=round(wall, 1))]
            if k == runs[-1][2]:      # the largest key set contains the smaller ones' states
                cov["states"] += st.get("states_visited", 0)
                cov["map_keys"] = k
                cov["map_states_visited"] = st.get("states_visited", 0)
                cov["map_frontier_empty"] = bool(st.get("frontier_empty"))
            cov["map_transitions"] = cov.get("map_transitions", 0) + st.get("transitions", 0)
            cov["map_observer_comparisons"] = cov.get("map_observer_comparisons", 0) + st.get("observer_comparisons", 0)
            cov["transitions"] += st.get("transitions", 0)
            cov["executions"] += st.get("transitions", 0)
            cov["traces_validated_against_impl"] += st.get("rebuilds", 0)
            cov["samples"] += [r["text"] for r in recs if r.get("kind") == "sample"][-3:]
            if dn.get("deadline_hit"):
                chk.deadline_hit = True
            if not st.get("frontier_empty") or st.get("quarantine_skipped", 0) or st.get("unexpandable_states", 0):
                exhaustive = False
        cov["samples"] += _path_samples(exe)
    finally:
        shutil.rmtree(crashdir, ignore_errors=True)

    cov["build_variant"] = "asan (map BFS keys=2, paths, large scripts)" + ("" if quick else "; plain (map BFS keys=3)")
    cov["bounds_completed"] = "map keys=%d x 10 values (BFS to empty frontier: %s); path strings <= %d + families " \
        "(complete: %s); large scripts %s/%s" % (keys, cov.get("map_frontier_empty"), maxlen, cov.get("path_complete"),
                                                 cov.get("large_scripts_completed"), cov.get("large_scripts"))
    cov["exhaustive"] = exhaustive and not chk.deadline_hit and not chk.broken
    chk.add_cov(**cov)
