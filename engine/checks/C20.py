"""C20 - xcmrelay is transparent.

Deciding step: exhaustive enumeration of every interleaving of the client application, the relay
(tools/xcmrelay/{rserver,xrelay}.c from the working tree on the real libevent; one scheduler step = one
dispatch round of its event loop, optionally one XCM call) and the server application, combined with
every pattern of <= D deviations in total (preemptions + I/O deviations below XCM on either leg: short
reads/writes, EAGAIN, the persistent write stall = back-pressure, connect latency, accept EAGAIN),
per closed scenario (leg pair x traffic script), on the real code (h_relay + envshim + mcx).
Oracle: end-to-end chan per connection and direction, close order, no exit, no stall (quiescence with
an endpoint still waiting), no unexplained termination, independence of two relayed connections."""
import os

from checks import msgfamily

LEVEL = "model_checking"
PREFIXES = ("C20/", "crash/")
WRAPS = ["xcm_send", "xcm_receive", "xcm_finish", "xcm_close", "xcm_accept_a", "xcm_connect_a", "xrelay_create"]
BUILD = dict(relay=True, extra_wraps=WRAPS)

# I/O deviation menus (envshim.h): the full default menu, and the one without the finer short counts
# (1 byte / all-but-one / trickles: header splitting is C01/C07's subject) used at the deeper bounds
MENU_FULL = None
MENU_CORE = 0x002 | 0x008 | 0x010 | 0x080 | 0x100 | 0x200 | 0x400   # half, EAGAIN, stall, connect latency, accept, seqpkt, fin

ASSUME = [
    "the relay is rserver_create/rserver_start + event_base_loop exactly as tools/xcmrelay/main.c drives them; main.c's "
    "option parsing and signal handling are not driven",
    "the relay task is disabled exactly while poll(libevent's epoll descriptor) reports nothing, i.e. while the real "
    "process would sleep in epoll_wait (xrelay/rserver arm no libevent timers); one scheduler step of the relay is one "
    "dispatch round (EVLOOP_ONCE|EVLOOP_NONBLOCK), with gran=api one XCM call",
    "the two applications are single-threaded: with two relayed connections the client application drives both of its "
    "connections in a fixed program order, and so does the server application; all interleavings of client application, "
    "relay and server application are enumerated. The start-up order server-await, relay-first-wait, client is fixed (their "
    "prologues are invisible to each other)",
    "message sizes are {1,2,4..9,300,65535}, byte-stream writes {1,2,3,4,5,300,40000}, payloads are patterned (data independence: "
    "neither XCM's framing nor xrelay branches on payload bytes)",
    "TCP is emulated over AF_UNIX stream sockets by envshim (1 MB buffers): back-pressure on TCP-class legs is the persistent "
    "write-stall deviation, on UX legs it is the kernel's own SEQPACKET buffer limit",
    "close-order clause is evaluated when the closer flushed (xcm_finish()==0) before xcm_close, no deviation hit the close "
    "itself, and nothing was under way towards the closer (a reset may legitimately destroy data otherwise, as on plain TCP); "
    "all clauses are void once the environment has withheld a connection establishment for tcp.connect_timeout (3 s virtual)",
    "pairing phase: a destination that is not listening (ux/uxf: the relay's outbound xcm_connect_a fails synchronously) or an "
    "injected NULL/EMFILE result of the relay's outbound xcm_connect_a (cfault=1, one fault alternative per call, 1 deviation) "
    "must cost exactly the one client concerned; the two applications are synchronised out of band on 'stopped listening' / "
    "'listens again'; a full accept backlog (connect EAGAIN) is not driven",
    "bounds: every choice sequence with at most D deviations (preemptions + environment deviations) per configuration; a "
    "violation needing more deviations, longer scripts or more than two concurrent connections is not excluded",
]

CERTS = os.path.join(msgfamily.PKI, "good_a")


def P(lc, ls, script, menu=MENU_FULL, dev="all", gran="loop", cfault=0):
    p = "lc=%s,ls=%s,script=%s" % (lc, ls, script)
    if menu is not None:
        p += ",menu=0x%x" % menu
    if dev != "all":
        p += ",dev=" + dev
    if gran != "loop":
        p += ",gran=" + gran
    if cfault:
        p += ",cfault=1"
    if any(t in (lc, ls) for t in ("tls", "utls", "btls")):
        p += ",certs=" + CERTS
    return p


MSG_PAIRS = (("ux", "tcp"), ("tcp", "ux"), ("tcp", "tls"), ("tls", "tcp"), ("utls", "ux"))
BS_PAIRS = (("btcp", "btls"), ("btls", "btcp"), ("btcp", "btcp"))


def has_tls(lc, ls):
    return "tls" in (lc, ls) or "btls" in (lc, ls)


PAIRING_PAIRS = (("ux", "ux"), ("tcp", "ux"), ("ux", "uxf"), ("tcp", "uxf"))


def pairing_configs(q):
    """Pairing phase: a client whose outbound leg cannot be set up is dropped, nothing else happens.
    P1: c0 relayed and talking; destination stops listening; c1 connects (outbound ux/uxf connect fails synchronously)
    and must just be dropped; c0<->s0 go on both ways; destination listens again; c2 is served.  P2: destination has
    never listened.  cfault=1: the relay's xcm_connect_a itself returns NULL/EMFILE (one labelled fault alternative per
    outbound connect) - reaches the same path on pairs whose refusals are otherwise asynchronous."""
    c = []
    for lc, ls in PAIRING_PAIRS:
        c.append((P(lc, ls, "P1"), 2 if (not q or lc == "ux") else 1))
        c.append((P(lc, ls, "P2"), 2 if (not q or lc == "ux") else 1))
    for lc, ls, d in (("tcp", "tcp", 2), ("ux", "tcp", 2), ("tcp", "tls", 1), ("tls", "tcp", 1)):
        c.append((P(lc, ls, "M1", MENU_CORE, cfault=1), 1 if q else d))
    if not q:
        c.append((P("ux", "tcp", "R3", MENU_CORE, cfault=1), 2))
        c.append((P("tcp", "ux", "M3", MENU_CORE, cfault=1), 2))
    return c


def configs(tier):
    q = tier == "quick"
    c = []
    if q:
        cheap = (("ux", "tcp"), ("tcp", "ux"), ("utls", "ux"))
        for lc, ls in cheap:
            # D=2: one-way + close in either direction, both directions + close, two connections, concurrent two-way
            for script in ("R1s", "R2s", "R3", "M1", "R4", "R6s"):
                c.append((P(lc, ls, script, MENU_CORE), 2))
            c.append((P(lc, ls, "R1"), 1))          # 65535-byte messages, full menu
        # pairs with a TLS leg: D=2 where the handshake leaves few free schedules, D=1 elsewhere
        for script, d in (("R1s", 2), ("R2s", 2), ("R3", 2), ("M1", 1), ("R1", 1), ("R4s", 1), ("R6s", 1)):
            c.append((P("tcp", "tls", script, MENU_CORE), d))
        for script, d in (("R1s", 2), ("R2s", 1), ("R3", 1), ("M1", 1), ("R1", 1), ("R4s", 1), ("R6s", 1)):
            c.append((P("tls", "tcp", script, MENU_CORE), d))
        for script, d in (("B1", 2), ("B2", 2), ("B3", 1), ("B4", 2), ("M1", 1)):
            c.append((P("btcp", "btls", script, MENU_CORE), d))
        for script, d in (("B1", 2), ("B2", 2), ("B3", 1), ("B4", 1), ("M1", 1)):
            c.append((P("btls", "btcp", script, MENU_CORE), d))
        for script in ("B1", "B2", "B3", "B4", "M1"):
            c.append((P("btcp", "btcp", script), 2))
        # one level deeper where it is cheap
        c.append((P("ux", "tcp", "R1s", MENU_CORE, dev="relay"), 3))
        c.append((P("btcp", "btcp", "B2", MENU_CORE), 3))
        c.append((P("btcp", "btcp", "B4", MENU_CORE), 3))
        c.append((P("tcp", "tcp", "R1", gran="api"), 1, "asan"))
        c += pairing_configs(True)
        return c
    # thorough
    cheap = (("ux", "tcp"), ("tcp", "ux"), ("utls", "ux"), ("tcp", "tcp"))
    for lc, ls in cheap:
        for script in ("R1s", "R2s", "R3", "R5"):
            c.append((P(lc, ls, script), 2))                              # full menu, deviations anywhere
        for script in ("R1s", "R2s"):
            c.append((P(lc, ls, script, MENU_CORE), 3))                   # core menu, deviations anywhere
        deep_all = (lc, ls) in (("ux", "tcp"), ("utls", "ux"))
        for script in ("R3", "R5"):
            c.append((P(lc, ls, script, MENU_CORE, dev="all" if deep_all else "relay"), 3))
        for script in ("R1", "R2", "R6"):                                 # 65535-byte messages
            c.append((P(lc, ls, script), 2))
        for script in ("R4", "R6s", "M1", "M3"):
            c.append((P(lc, ls, script, MENU_CORE), 2))
        if ls == "tcp":
            c.append((P(lc, ls, "M2", MENU_CORE), 2))
        c.append((P(lc, ls, "R3", MENU_CORE, gran="api"), 2))              # a scheduling point before every relay XCM call
    for script, d, dev in (("R1s", 2, "all"), ("R2s", 2, "all"), ("R3", 2, "all"), ("R5", 2, "all"), ("M1", 2, "all"),
                           ("R1", 1, "all"), ("R2", 1, "all"), ("R4s", 2, "relay"), ("R6s", 2, "relay"), ("M2", 1, "all"),
                           ("R1s", 3, "relay")):
        c.append((P("tcp", "tls", script, MENU_CORE, dev=dev), d))
    for script, d, dev in (("R1s", 2, "all"), ("R2s", 2, "all"), ("R3", 2, "relay"), ("R5", 2, "relay"), ("M1", 2, "relay"),
                           ("R1", 1, "all"), ("R2", 1, "all"), ("R4s", 2, "relay"), ("R6s", 1, "all"), ("M2", 1, "all"),
                           ("R1s", 3, "relay")):
        c.append((P("tls", "tcp", script, MENU_CORE, dev=dev), d))
    for script in ("B1", "B2", "B4"):
        c.append((P("btcp", "btcp", script), 3))
    c.append((P("btcp", "btcp", "B3"), 2))
    c.append((P("btcp", "btcp", "B3", MENU_CORE, dev="relay"), 3))
    c.append((P("btcp", "btcp", "M1"), 2))
    for script, d, dev in (("B1", 2, "all"), ("B2", 2, "all"), ("B3", 2, "all"), ("B4", 2, "all"), ("M1", 2, "relay"),
                           ("B2", 3, "relay")):
        c.append((P("btcp", "btls", script, MENU_CORE, dev=dev), d))
    for script, d, dev in (("B1", 2, "all"), ("B2", 2, "all"), ("B3", 2, "relay"), ("B4", 2, "relay"), ("M1", 1, "all")):
        c.append((P("btls", "btcp", script, MENU_CORE, dev=dev), d))
    # sanitizer build
    for lc, ls, script in (("tcp", "tcp", "R1"), ("ux", "tcp", "R3"), ("tcp", "tls", "R1s"), ("tls", "tcp", "R2s"),
                           ("btcp", "btls", "B2"), ("tcp", "tcp", "M1"), ("utls", "ux", "R4")):
        c.append((P(lc, ls, script), 1, "asan"))
    # deepest on the cheapest pairs (deviations on the relay's own calls + all preemptions)
    c.append((P("ux", "tcp", "R1s", MENU_CORE, dev="relay"), 4))
    c.append((P("tcp", "ux", "R2s", MENU_CORE, dev="relay"), 4))
    c.append((P("btcp", "btcp", "B2", MENU_CORE, dev="relay"), 4))
    c += pairing_configs(False)
    return c


def prepare_replay(art):
    import harnesses
    harnesses.build_explorer_harness("h_relay", variant=art.get("build", "plain"), **BUILD)


def run_configs(chk, cfgs, jobs, deadline_s):
    """msgfamily.run_configs with one addition: an execution killed by the explorer's 60 s watchdog that does
    NOT reproduce on replay is scheduling starvation on an overloaded machine, not a verdict: it is recorded as
    an INFO line (a real hang of the code under test reproduces and stays a finding)."""
    import time
    import harnesses
    msgfamily.ensure_pki()
    exes = {}
    t_end = time.time() + deadline_s
    tot = dict(executions=0, states=0, transitions=0, outcomes=0, points=0)
    per_cfg, samples, counters = [], [], [0] * 24
    completed_all = True
    for cfg in cfgs:
        params, bound = cfg[0], cfg[1]
        variant = cfg[2] if len(cfg) > 2 else "plain"
        if variant not in exes:
            exes[variant] = harnesses.build_explorer_harness("h_relay", variant=variant, **BUILD)
        left = t_end - time.time()
        if left < 3:
            chk.deadline_hit = True
            completed_all = False
            per_cfg.append(dict(params=params, bound=bound, build=variant, skipped="tier deadline reached"))
            continue
        env = harnesses.asan_env() if variant == "asan" else None
        res = harnesses.explore(exes[variant], params, bound, left, jobs=jobs, env=env)
        keep = []
        for v in res.get("violations", []):
            if v.get("crash") and "SIGALRM(watchdog)" in v["signature"] and not v.get("reproduced"):
                chk.info("watchdog-not-reproduced", "an execution was killed by the 60 s watchdog but completed normally "
                         "when replayed (machine overload); scenario %s" % params)
                continue
            keep.append(v)
        res["violations"] = keep
        harnesses.merge_into(chk, res, PREFIXES, params, build_variant=variant)
        tot["executions"] += res.get("executions", 0)
        tot["states"] += res.get("states", 0)
        tot["transitions"] += res.get("transitions", 0)
        tot["outcomes"] += res.get("distinct_outcomes", 0)
        tot["points"] += res.get("points_total", 0)
        for i, c in enumerate(res.get("counters", [])[:24]):
            counters[i] += c
        if res.get("completed_bound", -1) < bound:
            completed_all = False
        per_cfg.append(dict(params=params, bound=bound, build=variant, completed_bound=res.get("completed_bound"),
                            executions=res.get("executions"), states=res.get("states"),
                            transitions=res.get("transitions"), distinct_outcomes=res.get("distinct_outcomes"),
                            executions_per_level=res.get("executions_per_level"),
                            max_choice_points=res.get("max_points"), wall_s=round(res.get("elapsed", 0), 2)))
        for smp in res.get("samples", [])[:2]:
            if len(samples) < 12:
                samples.append(dict(scenario=params, execution=smp))
    chk.add_cov(states=tot["states"], transitions=tot["transitions"],
                traces_validated_against_impl=tot["executions"], executions=tot["executions"],
                distinct_outcomes_summed=tot["outcomes"], choice_points_total=tot["points"],
                configurations=len(cfgs), per_configuration=per_cfg, samples=samples,
                exhaustive=completed_all and not chk.deadline_hit,
                relay_dispatch_rounds=counters[0], close_order_verdicts=counters[1])


def run(chk, tier, jobs, deadline):
    chk.assumptions += ASSUME
    run_configs(chk, configs(tier), jobs, deadline or (900 if tier == "quick" else 2400))
    chk.add_cov(leg_pairs=["%s<->%s" % p for p in MSG_PAIRS + BS_PAIRS + (("tcp", "tcp"),) + PAIRING_PAIRS],
                max_deviation_bound_completed=max(c[1] for c in configs(tier)))
