"""C11 - attribute values take effect and are inherited as documented.

Deciding step: (a) exhaustive enumeration of SET-HISTORIES (attribute x admissible value x life point,
singles and ordered pairs) on connect-side and accepted sockets of every TCP-based transport; the history
is selected by free choice points inside the explorer, which on top of it enumerates both worlds of the
TCP handshake (pending / completed at once) and every schedule and I/O-deviation pattern within the bound;
(b) complete small products (xcm.service, xcm.blocking, xcm.local_addr, creation-only attributes in the
map, server->accepted inheritance).  Oracle: accepted value == xcm_attr_get == option in force on the
descriptor that carries the connection (shim's sockopt table)."""
from checks import msgfamily

LEVEL = "model_checking"
PREFIXES = ("C11/", "crash/")

ASSUME = [
    "values per attribute: tcp.keepalive {false,true}; keepalive_time/interval {7,1,32767}; keepalive_count {5,3,127}; "
    "user_timeout {7,3,2147483} (a non-default, the default, the largest the kernel accepts); creation-only attributes "
    "(dns.algorithm, dns.timeout, tcp.connect_timeout, xcm.local_addr, xcm.service, tls.auth, tls.check_time, "
    "tls.verify_peer_name, tls.client, tls.cert_file) are offered at every later life point and must not change",
    "life points: creation map, resolving (resolver answer withheld), connecting (TCP completion withheld; both the pending and "
    "the completed-at-once world are enumerated as a free choice), established, closed by peer",
    "'in force' is read from the environment shim's table of setsockopt() calls on the emulated TCP descriptor that carries the "
    "connection; what the kernel then does with the option is outside the check",
    "a creation-only attribute may answer a later set with EACCES or EINVAL, or accept a no-op (same value / 'any'); the value "
    "must not change. tcp.connect_timeout being writable while the name is still resolving is reported as INFO, not as a violation",
]


def configs(tier):
    q = tier == "quick"
    c = []
    # the complete small products first (seconds).  tp=tls only so that the certificate directory is passed; the
    # static cells visit every transport themselves
    c.append(("tp=tls,mode=static,part=all", 0))
    c.append(("tp=tls,mode=static,part=all", 0, "asan"))
    TPS = (("tcp", 0), ("btcp", 0), ("tls", 1), ("btls", 1), ("utlstls", 1))
    # an accepted tcp.connect_timeout (creation map, or while the name is still being resolved) governs the attempt:
    # silent destination, virtual clock, every order of the resolver's answer and the timers within the bound
    for tp, tls in TPS:
        c.append(("tp=%s,mode=ctmo" % tp, 1 if q else 2))
    for tp, tls in TPS:
        # singles with every deviation pattern <= D; ordered pairs of tcp.* sets; pairs over all attributes
        c.append(("tp=%s,mode=hist,depth=1,menu=0x%x" % (tp, 0xfff), (0 if tls else 1) if q else (1 if tls else 2)))
        if not (q and tp in ("btls", "utlstls")):      # quick: the pair histories of the TLS class on tls only
            c.append(("tp=%s,mode=hist,depth=2,tcponly=1" % tp, 0))
        if not q:
            c.append(("tp=%s,mode=hist,depth=2" % tp, 0))
        c.append(("tp=%s,mode=accept,depth=%d" % (tp, 1 if q and tls else 2), (0 if tls else 1) if q else 1))
    if not q:
        # the deepest levels last (a tier deadline cuts from the end): pairs with one deviation, accept side with two
        for tp, tls in TPS:
            if not tls:
                c.append(("tp=%s,mode=hist,depth=2,tcponly=1" % tp, 1))
                c.append(("tp=%s,mode=accept,depth=2" % tp, 2))
        c.append(("tp=tls,mode=hist,depth=1,menu=0x%x" % 0xfff, 2))
    return c


# Part 2: multi-address connects.  h_eff only knows single-address connects; h_dns (C13's harness) has the worlds in
# which the connection is made on the second, third... address, on the other address family (sequential: one track
# drives an IPv4 and an IPv6 descriptor) or on the other happy-eyeballs track.  Its in-force oracle compares, when the
# connection is established and once more after a further xcm_finish, xcm_attr_get(tcp.keepalive, keepalive_time,
# keepalive_interval, keepalive_count, user_timeout) with the shim's sockopt table of the descriptor that carries the
# connection - with the defaults and with non-default values given in the creation map (opts=3: both, a free choice).
DNS_CONFIGS = [
    # (params, bound quick, bound thorough or None = thorough only when quick bound is None)
    ("tp=btcp,algs=6,dns=3,laddrs=1,ctos=1,dnstos=2,maxlen=2,canon=1,opts=3", 1, 2),
    ("tp=btcp,algs=6,dns=1,laddrs=3,ctos=1,minlen=3,maxlen=3,canon=1,opts=2", 0, 1),
    ("tp=tls,algs=6,dns=1,laddrs=1,ctos=1,maxlen=2,canon=1,opts=3", 1, 1),
    # xcm.local_addr determines the source address - also when the name has several addresses and the bind fails or
    # succeeds per candidate (every local-address kind of h_dns: port 0, fixed port, occupied port, foreign address)
    ("tp=btcp,algs=6,dns=1,laddrs=30,ctos=1,maxlen=3,canon=1,opts=1", 0, 1),
    ("tp=tls,algs=6,dns=1,laddrs=30,ctos=1,maxlen=2,canon=1,opts=1", 0, 1),
    ("tp=tcp,algs=6,dns=3,laddrs=3,ctos=3,dnstos=2,maxlen=2,canon=1,opts=3", None, 1),
    ("tp=btls,algs=6,dns=3,laddrs=1,ctos=1,dnstos=2,maxlen=2,canon=1,opts=3", None, 1),
    ("tp=utls,algs=6,dns=3,laddrs=1,ctos=1,dnstos=2,maxlen=2,canon=1,opts=3", None, 1),
]


def run_dns_part(chk, tier, jobs):
    import harnesses
    q = tier == "quick"
    cov = chk.coverage
    exe = harnesses.build_explorer_harness("h_dns", variant="plain")
    compared = 0
    for params, bq, bt in DNS_CONFIGS:
        bound = bq if q else bt
        if bound is None:
            continue
        if msgfamily.needs_tls(params):
            params += "," + msgfamily.certs()
        res = harnesses.explore(exe, params, bound, 120 if q else 600, jobs=jobs)
        # h_dns reports a connection whose source differs from the accepted xcm.local_addr under C13 (the attempt
        # algorithm); it is C11's clause "xcm.local_addr determines the source address" as well
        res = dict(res)
        vs = []
        for v in res.get("violations", []):
            if v["signature"].startswith("C13/local-addr/"):
                v = dict(v)
                v["signature"] = "C11/" + v["signature"][4:]
            vs.append(v)
        res["violations"] = vs
        harnesses.merge_into(chk, res, ("C11/",), params)
        for k in ("states", "transitions", "executions"):
            cov[k] = cov.get(k, 0) + res.get(k, 0)
        cov["traces_validated_against_impl"] = cov.get("traces_validated_against_impl", 0) + res.get("executions", 0)
        cov["evaluations"] = cov.get("evaluations", 0) + res.get("executions", 0)
        cov["configurations"] = cov.get("configurations", 0) + 1
        compared += (res.get("counters") or [0] * 8)[7]
        cov.setdefault("per_configuration", []).append(
            dict(params=params, bound=bound, build="plain", harness="h_dns", executions=res.get("executions"),
                 completed_bound=res.get("completed_bound"), states=res.get("states"),
                 transitions=res.get("transitions"), wall_s=round(res.get("elapsed", 0), 2)))
        for smp in res.get("samples", [])[:1]:
            if len(cov.setdefault("samples", [])) < 12:
                cov["samples"].append(dict(scenario=params, execution=smp))
        if res.get("completed_bound", -1) < bound:
            cov["exhaustive"] = False
    cov["in_force_comparisons_multi_address"] = compared


def run(chk, tier, jobs, deadline):
    chk.assumptions += ASSUME
    chk.assumptions.append("multi-address connects (h_dns): canonical resolver answers of 1-3 addresses over {127.0.0.1, 127.0.0.2, ::1, "
                           "fd00::2}, every accept/refuse/silent assignment, dns.algorithm sequential and happy_eyeballs, default and "
                           "non-default tcp.* values in the creation map; the options are compared on the descriptor the last "
                           "connect() to the connected address was issued on")
    msgfamily.run_configs(chk, "h_eff", configs(tier), PREFIXES, jobs,
                          deadline or (420 if tier == "quick" else 1500),
                          counter_names={1: "set_operations_applied", 2: "in_force_comparisons", 3: "static_cells"})
    run_dns_part(chk, tier, jobs)
