"""C07 - hostile or corrupt wire input cannot harm or mislead the receiver.

Exhaustive INPUT enumeration with harness/h_wire.c (enumerator shape, README "Two harness shapes" (b)):
a raw peer on the other side of an emulated TCP connection feeds every byte stream of a stated finite
space, in every segmentation of a stated finite set, to a real XCM endpoint (tcp, tls, btcp, btls; XCM
as server and as client) built from the working tree with ASan + the UBSan memory subset; every result of
xcm_receive / xcm_send is compared with a reference decoder of the wire format.  One forked child per
batch of cases: a crash, abort, sanitizer report or hang is a finding that names the exact input.

Families: frames (plaintext frame streams; for TLS through a harness-side OpenSSL peer after a good
handshake), ctfrag (TLS: ciphertext of one record cut at every offset / trickled), rawinj (TLS: the byte
strings injected below the TLS layer on an established connection), prehs (TLS: the byte strings instead
of the handshake), hsmut (TLS: every byte offset of every handshake flight and of the first application
record x mutation set).
"""
import json
import os
import shutil
import subprocess
import sys
import threading
import time
from concurrent.futures import ThreadPoolExecutor

sys.path.insert(0, os.path.dirname(os.path.dirname(os.path.abspath(__file__))))
import build  # noqa: E402
import harnesses  # noqa: E402
from checks import msgfamily  # noqa: E402

LEVEL = "model_checking"
WRAPS = ["malloc", "calloc", "realloc", "free"]

ASSUME = [
    "input space: byte streams of <= maxframes frames (+ one tail: 1-3 header bytes of 00.. or ff.., or a frame truncated "
    "at every payload offset for lengths 1, 2 and at offsets 0, 1, 65534 for length 65535) whose announced lengths come from "
    "{0,1,2,65535,65536,0x7fffffff,0x80000000,0xffffffff}; an illegal header is followed by nothing, by further frames or "
    "(65536) by its full payload; per configuration the bounds maxframes/nfull/big are listed in per_configuration",
    "segmentations: ALL 2^(n-1) for streams of n <= nfull bytes; longer ones: one piece, every single cut (streams over 4096 "
    "bytes: every cut within +-1 of a frame/header/payload boundary and of 16384, 32768), 1-byte trickle (n <= 64, and a "
    "single 65539-byte frame where bigtrickle=1), one piece + trickle only where cuts=0; the receiver calls xcm_receive "
    "until nothing more arrives after every segment; endings: close together with the last segment, close after the last "
    "drain, silence (TLS: close_notify+close, abrupt close, silence)",
    "payload bytes are patterned, not arbitrary: the framing code never branches on payload bytes (data independence)",
    "TLS: one TLS record per plaintext segment (ctfrag: one record, ciphertext fragmented instead); handshake flights are "
    "those of a harness-side OpenSSL peer with deterministic randomness (RAND method replaced), TLS 1.3, EC P-256 "
    "certificates from build/pki (flight lengths depend on the generated certificates); mutation set per offset: xor 0x01, "
    "xor 0xff, 1/2/3 bytes set to 00, 1/2/3 bytes set to ff (= every 1-, 2- and 3-byte length field replaced by 0 / max), "
    "truncate + close, truncate + silence (quick tier: xor 0xff, 2 bytes 00, 2 bytes ff, truncate + close)",
    "a corrupted handshake byte may legitimately be ignored or rejected: after a mutation the oracle accepts 'nothing "
    "delivered' or 'everything delivered as the reference decoder says'; endings other than an illegal frame length may be "
    "reported as 0 or as any error",
    "heap bound: allocations made inside XCM API calls (XCM's own through wrapped malloc/calloc/realloc/free, OpenSSL's "
    "through CRYPTO_set_mem_functions) may grow after establishment by at most one maximum frame on the wire (65539) + 4 KiB "
    "(XCM's own) / + 32 KiB (with OpenSSL's); during a garbage handshake the peak may exceed that of a good handshake by at "
    "most the same amount",
    "release after close (every case): after xcm_close of the connection that received the input (raw side closed too, "
    "server socket kept) the ledger of allocations made inside XCM calls on that connection must be back to 0 bytes for the "
    "library's own allocations and <= 2 KiB for OpenSSL's (one-time error-state strings); prefix=60000 configurations run "
    "every stream behind one well-formed 60000-byte frame on the same connection (tls, utls over tls, tcp)",
    "bystander (every tls/btls case): a second healthy idle connection B of the same kind, same thread, established once per "
    "forked batch before any case (outside the heap measurement) and re-established after a violation; after every case on "
    "the hostile connection: one idle xcm_receive(B) must say EAGAIN, one valid message (btls: 7 bytes) from B's peer must be "
    "delivered exactly, xcm_send on B must be accepted and arrive; the harness-side OpenSSL peers share the thread's OpenSSL "
    "error queue with the library: every harness-side SSL call removes exactly the entries it added (ERR_set_mark/"
    "ERR_pop_to_mark), judges results with SSL_want() and stops stepping its handshake once the XCM side has failed",
    "the TCP emulation of envshim (AF_UNIX stream sockets) with io_menu=0: recv returns what has been written so far, so the "
    "sender's segmentation is the fragmentation the receiver sees",
]


def _tiers(tier):
    """list of (cfg string, weight = rough CPU seconds per 1000 cases under asan)"""
    T = []
    if tier == "quick":
        for role in ("server", "client"):
            T.append(("tp=tcp,role=%s,fam=frames,nfull=10,maxframes=2,big=1" % role, 0.4))
            T.append(("tp=btcp,role=%s,fam=frames,nfull=8,maxframes=2,big=1" % role, 0.4))
        for tp in ("tls", "btls"):
            for role in ("server", "client"):
                T.append(("tp=%s,role=%s,fam=frames,nfull=6,maxframes=1,big=1" % (tp, role), 6.5))
                T.append(("tp=%s,role=%s,fam=frames,nfull=4,maxframes=2,big=0,cuts=0" % (tp, role), 6.5))
                T.append(("tp=%s,role=%s,fam=hsmut,mutset=0" % (tp, role), 3.0))
                T.append(("tp=%s,role=%s,fam=prehs,nfull=5,maxframes=2,big=1,cuts=0" % (tp, role), 1.0))
                T.append(("tp=%s,role=%s,fam=rawinj,maxframes=1,big=1" % (tp, role), 6.5))
        T.append(("tp=tls,role=server,fam=ctfrag,maxframes=1", 6.5))
        T.append(("tp=btls,role=client,fam=ctfrag,maxframes=0", 6.5))
        # every malformed input again BEHIND one large well-formed frame on the same connection (what the reassembly
        # buffer has grown to by then is what a bad frame may orphan)
        for role in ("server", "client"):
            T.append(("tp=tls,role=%s,fam=frames,nfull=4,maxframes=2,big=0,cuts=0,prefix=60000" % role, 7.5))
            T.append(("tp=utls,role=%s,fam=frames,nfull=4,maxframes=1,big=0,cuts=0,prefix=60000" % role, 7.5))
            T.append(("tp=tcp,role=%s,fam=frames,nfull=4,maxframes=2,big=0,cuts=0,prefix=60000" % role, 1.5))
    else:
        T.append(("tp=tcp,role=server,fam=frames,nfull=12,maxframes=3,big=3,bigtrickle=1", 0.4))
        T.append(("tp=tcp,role=client,fam=frames,nfull=11,maxframes=2,big=2,bigtrickle=1", 0.4))
        T.append(("tp=btcp,role=server,fam=frames,nfull=11,maxframes=2,big=2", 0.4))
        T.append(("tp=btcp,role=client,fam=frames,nfull=10,maxframes=2,big=1", 0.4))
        T.append(("tp=tls,role=server,fam=frames,nfull=8,maxframes=2,big=2,bigtrickle=1", 6.5))
        T.append(("tp=tls,role=server,fam=frames,nfull=5,maxframes=3,big=0,cuts=0", 6.5))
        T.append(("tp=tls,role=client,fam=frames,nfull=8,maxframes=2,big=1", 6.5))
        T.append(("tp=btls,role=server,fam=frames,nfull=6,maxframes=2,big=1", 6.5))
        T.append(("tp=btls,role=client,fam=frames,nfull=6,maxframes=2,big=1", 6.5))
        for tp in ("tls", "btls"):
            for role in ("server", "client"):
                T.append(("tp=%s,role=%s,fam=hsmut,mutset=1" % (tp, role), 3.0))
                T.append(("tp=%s,role=%s,fam=prehs,nfull=8,maxframes=2,big=2" % (tp, role), 1.0))
                T.append(("tp=%s,role=%s,fam=rawinj,maxframes=2,big=2" % (tp, role), 6.5))
        T.append(("tp=tls,role=server,fam=prehs,nfull=5,maxframes=3,big=0,cuts=0", 1.0))
        T.append(("tp=tls,role=server,fam=ctfrag,maxframes=2", 6.5))
        T.append(("tp=tls,role=client,fam=ctfrag,maxframes=1", 6.5))
        T.append(("tp=btls,role=server,fam=ctfrag,maxframes=1", 6.5))
        T.append(("tp=btls,role=client,fam=ctfrag,maxframes=1", 6.5))
        for role in ("server", "client"):
            T.append(("tp=tls,role=%s,fam=frames,nfull=6,maxframes=2,big=1,prefix=60000" % role, 7.5))
            T.append(("tp=utls,role=%s,fam=frames,nfull=4,maxframes=2,big=1,cuts=0,prefix=60000" % role, 7.5))
            T.append(("tp=tcp,role=%s,fam=frames,nfull=8,maxframes=2,big=1,prefix=60000" % role, 1.5))
    return T


def _env():
    env = harnesses.asan_env()
    env["ASAN_OPTIONS"] += ":malloc_context_size=8"
    return env


def _run_lines(cmd, env, timeout=None):
    r = subprocess.run(cmd, capture_output=True, env=env, timeout=timeout)
    out = []
    for ln in r.stdout.decode(errors="replace").splitlines():
        ln = ln.strip()
        if not ln.startswith("{"):
            continue
        try:
            out.append(json.loads(ln))
        except ValueError:
            out.append(dict(t="broken", text="unparsable harness line: %s" % ln[:200]))
    return r.returncode, out, r.stderr.decode(errors="replace")[-1500:]


def _crash_sig(rec, cfg):
    kv = dict(x.split("=", 1) for x in cfg.split(",") if "=" in x)
    base = "C07/crash/%s/fam=%s/tp=%s" % (rec.get("kind", "?"), kv.get("fam", "?"), kv.get("tp", "?"))
    return harnesses.refine_crash_signature(dict(signature=base, stderr=rec.get("stderr", "")))


def prepare_replay(art):
    msgfamily.ensure_pki()
    harnesses.build_explorer_harness("h_wire", variant=art.get("build", "asan"), extra_wraps=WRAPS)


def run(chk, tier, jobs, deadline):
    chk.assumptions += ASSUME
    msgfamily.ensure_pki()
    canon = harnesses.build_explorer_harness("h_wire", variant="asan", extra_wraps=WRAPS)
    # run a private copy: a concurrent build for another tree (VERIF_REPO) replaces build/bin/h_wire.asan
    os.makedirs(harnesses.RUN_DIR, exist_ok=True)
    exe = os.path.join(harnesses.RUN_DIR, "h_wire.asan.%d" % os.getpid())
    shutil.copy2(canon, exe)
    try:
        _run(chk, tier, jobs, deadline, exe, canon)
    finally:
        try:
            os.unlink(exe)
        except OSError:
            pass


def _run(chk, tier, jobs, deadline, exe, canon):
    env = _env()
    envs = "ASAN_OPTIONS='%s' UBSAN_OPTIONS='%s' " % (env["ASAN_OPTIONS"], env["UBSAN_OPTIONS"])
    dl = deadline or (420 if tier == "quick" else 1700)
    t_end = time.time() + dl
    certs = ",certs=" + msgfamily.PKI
    cfgs = [(c + (certs if ("tls" in c) else ""), w) for c, w in _tiers(tier)]

    # 1. sizes of the case spaces
    def count(cw):
        rc, lines, err = _run_lines([exe, "--count", "--cfg", cw[0]], env, timeout=120)
        for ln in lines:
            if ln.get("t") in ("count", "crash"):
                ln["stderr"] = ln.get("stderr") or err
                return ln
        return dict(t="broken", text="count failed for %s (rc=%d): %s %s" % (cw[0], rc, lines[-1:] or "", err[-300:]))
    with ThreadPoolExecutor(max_workers=max(1, jobs)) as ex:
        counts = list(ex.map(count, cfgs))
    plan = []
    per_cfg = {}
    warm_crashed = []
    for (cfg, w), cnt in zip(cfgs, counts):
        if cnt.get("t") == "crash":
            # the reference handshake itself kills the receiver
            one = cnt["one"]
            chk.finding(_crash_sig(cnt, cfg), "the receiving process died (%s) in the warm-up of %s  [case: %s]\n%s" %
                        (cnt.get("kind"), cfg, one, cnt.get("stderr", "")[:1800]),
                        dict(harness="h_wire.asan", build="asan", case=one, stderr=cnt.get("stderr", "")[:3000],
                             replay_cmd="%s%s --count --cfg '%s'" % (envs, canon, cfg)))
            warm_crashed.append(cfg)
            continue
        if cnt.get("t") != "count":
            chk.broke(cnt.get("text", "count failed"))
            continue
        n = cnt["n"]
        per_cfg[cfg] = dict(configuration=cfg.replace(certs, ""), cases_in_space=n, cases_done=0, checked=0, chunks=0,
                            chunks_done=0, crashes=0, flights=[x for x in cnt.get("flights", []) if x])
        # chunks of about 25 CPU-seconds, at least 2 per worker for the big ones
        per_chunk = max(500, int(25.0 / w * 1000))
        per_chunk = min(per_chunk, max(500, n // 4 + 1))
        a = 0
        while a < n:
            b = min(n, a + per_chunk)
            plan.append((w * (b - a), cfg, a, b))
            per_cfg[cfg]["chunks"] += 1
            a = b
    plan.sort(key=lambda j: -j[0])

    lock = threading.Lock()
    tot = dict(cases=0, calls=0, checked=0, msgs=0, bytes_fed=0, segments=0, crashes=0, skipped_chunks=0,
               out=dict(eproto=0, closed=0, eagain=0, other=0), max_growth_xcm=0, max_growth_all=0, max_peak_hs=0,
               hs_peak_ref=0, identity_skipped=0, hs_xcm_ok=0, bystander=0, residual=0, max_resid_xcm=0, max_resid_ssl=0)
    samples = []
    sigcount = {}
    best = {}

    def job(j):
        _, cfg, a, b = j
        if time.time() > t_end - 2:
            with lock:
                tot["skipped_chunks"] += 1
                chk.deadline_hit = True
            return
        n = b - a
        cmd = [exe, "--range", str(a), str(b), "--cfg", cfg, "--batch", "4000", "--sample-every", str(max(1, n // 2 + 1))]
        try:
            rc, lines, err = _run_lines(cmd, env, timeout=max(60, t_end - time.time() + 600))
        except subprocess.TimeoutExpired:
            with lock:
                chk.broke("harness timed out: %s" % " ".join(cmd))
            return
        with lock:
            done = False
            for ln in lines:
                t = ln.get("t")
                if t == "finding":
                    one = ln["one"]
                    sigcount.setdefault(ln["sig"], 0)
                    # keep the simplest failing case of every signature (fewest items, cuts, bytes)
                    # (preferring one in which the peer is still connected and yet "closed" is reported)
                    key = (not ("(peer closed)" in ln["text"] and "end=silence" in one), len(one), one)
                    if ln["sig"] not in best or key < best[ln["sig"]][0]:
                        best[ln["sig"]] = (key, ln["text"], one)
                elif t == "crash":
                    sig = _crash_sig(ln, cfg)
                    one = ln["one"]
                    chk.finding(sig, "the receiving process died (%s, status %s) while handling this input  [case: %s]\n%s" %
                                (ln.get("kind"), ln.get("status"), one, ln.get("stderr", "")[:1800]),
                                dict(harness="h_wire.asan", build="asan", case=one, stderr=ln.get("stderr", "")[:3000],
                                     replay_cmd="%s%s --one '%s'" % (envs, canon, one)))
                    tot["crashes"] += 1
                    per_cfg[cfg]["crashes"] += 1
                elif t == "sample":
                    if len(samples) < 400:
                        samples.append(dict(case=ln["case"].replace(certs, ""), xcm_receive_results=ln["results"],
                                            verdict=ln["verdict"]))
                elif t == "stats":
                    tot["cases"] += ln["cases"]
                    tot["calls"] += ln["calls"]
                    tot["checked"] += ln["checked"]
                    tot["msgs"] += ln["msgs_delivered"]
                    tot["bytes_fed"] += ln["bytes_fed"]
                    tot["segments"] += ln["segments"]
                    tot["identity_skipped"] += ln["identity_skipped"]
                    tot["hs_xcm_ok"] += ln["hs_xcm_ok"]
                    tot["bystander"] += ln.get("bystander_checks", 0)
                    tot["residual"] += ln.get("residual_checks", 0)
                    tot["max_resid_xcm"] = max(tot["max_resid_xcm"], ln.get("max_resid_xcm", 0))
                    tot["max_resid_ssl"] = max(tot["max_resid_ssl"], ln.get("max_resid_ssl", 0))
                    for k in ("eproto", "closed", "eagain", "other"):
                        tot["out"][k] += ln["out_" + k]
                    for k in ("max_growth_xcm", "max_growth_all", "max_peak_hs", "hs_peak_ref"):
                        tot[k] = max(tot[k], ln[k])
                    per_cfg[cfg]["cases_done"] += ln["cases"]
                    per_cfg[cfg]["checked"] += ln["checked"]
                    for s, c in ln.get("sigs", {}).items():
                        sigcount[s] = sigcount.get(s, 0) + c
                    if ln.get("internal"):
                        chk.broke("harness-internal error in %s [%d,%d): %s" % (cfg, a, b, ln.get("internal_text")))
                elif t == "broken":
                    chk.broke("%s [%d,%d): %s" % (cfg, a, b, ln.get("text")))
                elif t == "done":
                    done = True
                    per_cfg[cfg]["chunks_done"] += 1
                    if ln.get("aborted"):
                        per_cfg[cfg]["chunks_cut_short_after_12_crashes"] = \
                            per_cfg[cfg].get("chunks_cut_short_after_12_crashes", 0) + 1
            if not done:
                chk.broke("harness did not finish %s [%d,%d) (rc=%d): %s" % (cfg, a, b, rc, err[-400:]))

    with ThreadPoolExecutor(max_workers=max(1, jobs)) as ex:
        list(ex.map(job, plan))

    for sig in sorted(best):
        _, text, one = best[sig]
        chk.finding(sig, text + "  [case: %s]" % one,
                    dict(harness="h_wire.asan", build="asan", case=one, replay_cmd="%s%s --one '%s'" % (envs, canon, one)))
    # occurrences per signature (the harness prints only the first two of each per chunk)
    for s, c in sigcount.items():
        if s in chk.findings and c > chk.findings[s]["count"]:
            chk.findings[s]["count"] = c
    complete = all(p["cases_done"] == p["cases_in_space"] for p in per_cfg.values()) and not chk.deadline_hit \
        and not warm_crashed
    # a spread of samples: first of every configuration first
    seen, spread = set(), []
    for s in samples:
        key = s["case"].split(",stream=")[0].split(",flight=")[0]
        if key not in seen:
            seen.add(key)
            spread.append(s)
    spread += [s for s in samples if s not in spread]
    chk.add_cov(states=tot["cases"], transitions=tot["checked"], traces_validated_against_impl=tot["cases"],
                executions=tot["cases"], api_calls=tot["calls"], messages_delivered_and_compared=tot["msgs"],
                bytes_fed=tot["bytes_fed"], segments_fed=tot["segments"], crashes=tot["crashes"],
                first_terminal_result=tot["out"], max_heap_growth_xcm_bytes=tot["max_growth_xcm"],
                max_heap_growth_with_openssl_bytes=tot["max_growth_all"],
                max_heap_peak_garbage_handshake_bytes=tot["max_peak_hs"], heap_peak_good_handshake_bytes=tot["hs_peak_ref"],
                cases_with_bystander_check=tot["bystander"], cases_with_release_check_after_close=tot["residual"],
                max_bytes_left_after_close_xcm=tot["max_resid_xcm"], max_bytes_left_after_close_openssl=tot["max_resid_ssl"], identity_mutations_skipped=tot["identity_skipped"], mutated_handshakes_accepted_by_xcm=tot["hs_xcm_ok"],
                configurations=len(per_cfg), configurations_dead_in_warm_up=len(warm_crashed),
                chunks_skipped_by_deadline=tot["skipped_chunks"],
                per_configuration=sorted(per_cfg.values(), key=lambda p: p["configuration"]),
                samples=spread[:12], exhaustive=bool(complete), build="asan (clang ASan + UBSan memory subset)")
