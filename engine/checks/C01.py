"""C01 - messaging transports deliver exactly the accepted messages, whole, in order.

Deciding step: exhaustive enumeration of all schedules of the two endpoints' API calls combined with
all patterns of <= D environment deviations below XCM (and below OpenSSL), per closed scenario, on
the real code (h_msg + envshim + mcx).  Oracle: chan (DESIGN.md 1.5)."""
from checks import msgfamily

LEVEL = "model_checking"
PREFIXES = ("C01/", "crash/")

ASSUME = [
    "message lengths are the boundary set {1,2,3,5,7,300,65535} and payload bytes are patterned: the framing code "
    "never branches on payload bytes (data independence)",
    "TCP is emulated over AF_UNIX stream sockets by envshim; short counts, EAGAIN, persistent write stalls and "
    "connect latency are the deviations offered at every send/recv/connect/accept below the library",
    "bounds: every choice sequence with at most D deviations (environment deviations + preemptions) per configuration; "
    "a violation needing more deviations or a longer script is not excluded",
    "tf=1 configurations: a send(2) on an established TCP socket may be answered -1/ENOBUFS or -1/ENOMEM once with "
    "the connection unaffected (send(2) documents both); the application then goes on using the connection",
    "receive capacities start at 1 (a capacity-0 receive returns 0, indistinguishable from EOF)",
]


def configs(tier):
    q = tier == "quick"
    c = []
    M = "cnt=0,prop=C01,probe=1"
    # tcp: the framing layer itself
    for script, style, d_q, d_t in (("T1", "spec", 3, 4), ("T1s", "strict", 3, 5), ("T2", "loop", 2, 4),
                                    ("T3", "spec", 3, 4), ("T4", "spec", 3, 4), ("T6", "spec", 2, 4),
                                    ("T2", "spec", 2, 3), ("T1s", "spec,fin=each", 2, 4)):
        c.append(("tp=tcp,script=%s,style=%s,%s" % (script, style, M), d_q if q else d_t))
    # blocking modes
    c.append(("tp=tcp,script=T1s,ma=b,mb=b,%s" % M, 3 if q else 4))
    c.append(("tp=tcp,script=T1,ma=nb,mb=b,%s" % M, 2 if q else 3))
    c.append(("tp=tcp,script=T6,ma=b,mb=b,%s" % M, 2 if q else 3))
    c.append(("tp=tcp,script=T4,ma=b,mb=nb,%s" % M, 2 if q else 3))
    # ux / uxf / utls over its UX leg: only scheduling and SEQPACKET EAGAIN deviations exist
    for tp in ("ux", "uxf", "utls"):
        for script, style in (("T1", "spec"), ("T2", "loop"), ("T3", "spec"), ("T4", "spec")):
            c.append(("tp=%s,script=%s,style=%s,%s" % (tp, script, style, M), 3 if q else 4))
        c.append(("tp=%s,script=T6,ma=b,mb=b,%s" % (tp, M), 3 if q else 4))
    # tls and utls over its TLS leg
    for tp in ("tls", "utlstls"):
        for script, style, d_q, d_t in (("T1s", "spec", 2, 3), ("T1", "spec", 1, 2), ("T2", "loop", 2, 3),
                                        ("T3", "spec", 2, 3), ("T4", "spec", 2, 3)):
            c.append(("tp=%s,script=%s,style=%s,%s" % (tp, script, style, M), d_q if q else d_t))
        c.append(("tp=%s,script=T1s,ma=b,mb=b,%s" % (tp, M), 2 if q else 3))
    # the peer sends, flushes and closes; this end first writes into the closed connection (EPIPE) and only then reads:
    # every message the peer had accepted must still come out before the end-of-stream
    for tp, dq, dt in (("tcp", 2, 4), ("ux", 3, 4), ("utls", 3, 4), ("tls", 2, 3), ("utlstls", 2, 3)):
        c.append(("tp=%s,script=T7,style=spec,%s" % (tp, M), dq if q else dt))
        c.append(("tp=%s,script=T7,ma=b,mb=b,%s" % (tp, M), (dq if q else dt) - 1))
    # a send(2) answered ENOBUFS/ENOMEM with the connection itself unaffected (tf=1); the application then flushes,
    # offers the same message again and flushes: the peer's sequence must remain the sequence of successful sends
    for tp, dq, dt in (("tcp", 2, 3), ("tls", 1, 2), ("utlstls", 1, 2)):
        c.append(("tp=%s,script=T1s,style=spec,tf=1,menu=0,%s" % (tp, M), dq if q else dt))
        c.append(("tp=%s,script=T1s,ma=b,mb=b,tf=1,menu=0,%s" % (tp, M), dq if q else dt))
        c.append(("tp=%s,script=T2,style=loop,tf=1,menu=0x9,%s" % (tp, M), dq if q else dt))
    # sanitizer build again at a lower bound
    for tp in ("tcp", "tls", "ux", "utlstls"):
        c.append(("tp=%s,script=T1,%s" % (tp, M), 1 if q else 2, "asan"))
        c.append(("tp=%s,script=T2,style=loop,%s" % (tp, M), 1 if q else 2, "asan"))
    return c


def run(chk, tier, jobs, deadline):
    chk.assumptions += ASSUME
    msgfamily.run_configs(chk, "h_msg", configs(tier), PREFIXES, jobs,
                          deadline or (600 if tier == "quick" else 1500),
                          counter_names={0: "quiescent_points_probed"})
