"""C01 - messaging transports deliver exactly the accepted messages, whole, in order.

Deciding step: exhaustive enumeration of all schedules of the two endpoints' API calls combined with
all patterns of <= D environment deviations below XCM (and below OpenSSL), per closed scenario, on
the real code (h_msg + envshim + mcx).  Oracle: chan (DESIGN.md 1.5)."""
from checks import msgfamily

LEVEL = "model_checking"
PREFIXES = ("C01/", "crash/")

ASSUME = [
    "message lengths are the boundary set {1,2,3,5,7,300,65535} and payload bytes are patterned: the framing code "
    "never branches on payload bytes (data independence)",
    "TCP is emulated over AF_UNIX stream sockets by envshim; short counts, EAGAIN, persistent write stalls and "
    "connect latency are the deviations offered at every send/recv/connect/accept below the library",
    "bounds: every choice sequence with at most D deviations (environment deviations + preemptions) per configuration; "
    "a violation needing more deviations or a longer script is not excluded",
    "receive capacities start at 1 (a capacity-0 receive returns 0, indistinguishable from EOF)",
]


def configs(tier):
    q = tier == "quick"
    c = []
    M = "cnt=0,prop=C01,probe=1"
    # tcp: the framing layer itself
    for script, style, d_q, d_t in (("T1", "spec", 3, 4), ("T1s", "strict", 3, 5), ("T2", "loop", 2, 4),
                                    ("T3", "spec", 3, 4), ("T4", "spec", 3, 4), ("T6", "spec", 2, 4),
                                    ("T2", "spec", 2, 3), ("T1s", "spec,fin=each", 2, 4)):
        c.append(("tp=tcp,script=%s,style=%s,%s" % (script, style, M), d_q if q else d_t))
    # blocking modes
    c.append(("tp=tcp,script=T1s,ma=b,mb=b,%s" % M, 3 if q else 4))
    c.append(("tp=tcp,script=T1,ma=nb,mb=b,%s" % M, 2 if q else 3))
    c.append(("tp=tcp,script=T6,ma=b,mb=b,%s" % M, 2 if q else 3))
    c.append(("tp=tcp,script=T4,ma=b,mb=nb,%s" % M, 2 if q else 3))
    # ux / uxf / utls over its UX leg: only scheduling and SEQPACKET EAGAIN deviations exist
    for tp in ("ux", "uxf", "utls"):
        for script, style in (("T1", "spec"), ("T2", "loop"), ("T3", "spec"), ("T4", "spec")):
            c.append(("tp=%s,script=%s,style=%s,%s" % (tp, script, style, M), 3 if q else 4))
        c.append(("tp=%s,script=T6,ma=b,mb=b,%s" % (tp, M), 3 if q else 4))
    # tls and utls over its TLS leg
    for tp in ("tls", "utlstls"):
        for script, style, d_q, d_t in (("T1s", "spec", 2, 3), ("T1", "spec", 1, 2), ("T2", "loop", 2, 3),
                                        ("T3", "spec", 2, 3), ("T4", "spec", 2, 3)):
            c.append(("tp=%s,script=%s,style=%s,%s" % (tp, script, style, M), d_q if q else d_t))
        c.append(("tp=%s,script=T1s,ma=b,mb=b,%s" % (tp, M), 2 if q else 3))
    # sanitizer build again at a lower bound
    for tp in ("tcp", "tls", "ux", "utlstls"):
        c.append(("tp=%s,script=T1,%s" % (tp, M), 1 if q else 2, "asan"))
        c.append(("tp=%s,script=T2,style=loop,%s" % (tp, M), 1 if q else 2, "asan"))
    return c


def run(chk, tier, jobs, deadline):
    chk.assumptions += ASSUME
    msgfamily.run_configs(chk, "h_msg", configs(tier), PREFIXES, jobs,
                          deadline or (420 if tier == "quick" else 2700),
                          counter_names={0: "quiescent_points_probed"})
