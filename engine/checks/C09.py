"""C09 - TLS never fails open.

A finite configuration matrix visited completely by the explorer itself: harness h_tls selects ONE
cell per execution through zero-cost choice points (so `--bound 0` enumerates every cell under the
default environment and `--bound 1` every cell x every single environment/schedule deviation), runs
one connection to completion on the real code (handshake, one message each way, close) and judges
BOTH ends with the `policy` oracle - a pure function of the cell written from the TLS section of
include/xcm.h that reads what the certificate factory put INTO each certificate (pki/c09/kinds.tsv).

Violations (exit 1): a side whose peer does not satisfy its policy becomes usable / is handed data /
gets its data through (fail-open), refuses with an errno other than EPROTO, or an invalid policy
combination is not refused with EINVAL at creation.  A refusal where the documentation allows the
connection is an INFO line only.
"""
import datetime
import os
import subprocess
import sys
import time

sys.path.insert(0, os.path.dirname(os.path.dirname(os.path.abspath(__file__))))
import build  # noqa: E402
import harnesses  # noqa: E402

LEVEL = "model_checking"
PREFIXES = ("C09/",)
PKI = os.path.join(build.BUILD, "pki", "c09")
TPS = ("tls", "btls", "utls")

ASSUME = [
    "policy space per side: {tls.auth, tls.check_time, tls.check_crl} in {0,1}^3 (+ 'no policy attribute at all' = documented "
    "defaults) x tls.verify_peer_name in {off, on+matching tls.peer_names, on+non-matching, on without names, on with a DNS host name "
    "in the connect address} x tls.client in {natural, both ends reversed}; placement: xcm_connect_a map, server-socket map "
    "(inherited), xcm_accept_a map, accept map overriding opposite server-socket values (trust anchors and CRLs of the server socket "
    "are the wrong ones and supplied the other way, file<->value)",
    "peer credential kinds (EC P-256, generated offline by engine/pki/make.py --c09 relative to generation time with 20-day margins): "
    "valid, untrusted root, via trusted / untrusted / revoked / expired intermediate, expired, not yet valid, revoked, expired+revoked, "
    "self-signed, wrong name, CN-only, CN right/SAN wrong, CN wrong/SAN right, wildcard SAN, EKU serverAuth-only / clientAuth-only / "
    "both / codeSigning-only; each by file and by value; plus a raw TLS client presenting no certificate",
    "tls.check_time is judged against the real system clock (OpenSSL), not the shim's virtual clock",
    "correctness of OpenSSL's own chain building, signature and CRL processing is trusted: the oracle fixes what XCM must ask of it",
    "with tls.auth off, time/CRL/EKU/name conditions do not apply; tls.verify_peer_name=true with tls.auth=false and partial chains "
    "combined with CRL checking are 'either' (undocumented / documented as unsupported); a refusal where the documentation allows the "
    "connection is INFO, not a violation",
    "EPROTO is demanded of a refusing side only when its peer had no reason of its own to break off first",
    "utls: the socket under test is the utls one, its peer a plain tls socket (TLS leg); the SSL_CTX cache is primed in the explorer "
    "parent (contexts are still built by the code under test)",
]

COUNTERS = {0: "cells_run", 1: "connections_with_both_ends_created", 2: "sides_expected_EINVAL", 3: "sides_must_refuse_and_refused",
            4: "sides_must_accept_and_fully_usable", 5: "sides_either", 6: "sides_stricter_than_documented", 7: "side_judgements",
            8: "cells_void_utls_went_over_ux"}

DEFAULT_MENU = 0x001 | 0x002 | 0x004 | 0x008 | 0x010 | 0x020 | 0x040 | 0x080 | 0x100 | 0x200 | 0x400


def ensure_pki():
    subprocess.run(["/usr/bin/python3", os.path.join(build.ENGINE, "pki", "make.py"), "--c09"], check=True,
                   stdout=subprocess.DEVNULL, stderr=subprocess.DEVNULL)


def verify_pki(chk):
    """Independent look at the generated files: the table the oracle reads must describe them."""
    import warnings
    warnings.simplefilter("ignore")
    from cryptography import x509
    from cryptography.x509.oid import ExtendedKeyUsageOID as E, NameOID
    now = datetime.datetime.utcnow()
    crl_rev = set()
    data = open(os.path.join(PKI, "crl_revoking.pem"), "rb").read()
    for blk in data.split(b"-----END X509 CRL-----")[:-1]:
        crl = x509.load_pem_x509_crl(blk + b"-----END X509 CRL-----\n")
        for r in crl:
            crl_rev.add(r.serial_number)
    for blk in open(os.path.join(PKI, "crl_empty.pem"), "rb").read().split(b"-----END X509 CRL-----")[:-1]:
        if len(list(x509.load_pem_x509_crl(blk + b"-----END X509 CRL-----\n"))):
            chk.broke("pki/c09: crl_empty.pem revokes something")
    ca_short = {"c09-root": "R", "c09-untrusted-root": "U", "c09-inter": "I", "c09-revoked-inter": "RI",
                "c09-untrusted-inter": "UI", "c09-expired-inter": "XI"}
    n = 0
    for line in open(os.path.join(PKI, "kinds.tsv")):
        if line.startswith("#") or not line.strip():
            continue
        name, path, tm, revoked, eku, names = line.split()
        pem = open(os.path.join(PKI, name, "cert.pem"), "rb").read()
        certs = [x509.load_pem_x509_certificate(b + b"-----END CERTIFICATE-----\n")
                 for b in pem.split(b"-----END CERTIFICATE-----")[:-1]]
        leaf = certs[0]

        def cn(nm):
            return nm.get_attributes_for_oid(NameOID.COMMON_NAME)[0].value
        got_path = "SELF" if leaf.issuer == leaf.subject else ca_short.get(cn(leaf.issuer), "?")
        if len(certs) > 1:
            got_path += ">" + ca_short.get(cn(certs[1].issuer), "?")
        elif got_path in ("I", "RI", "UI", "XI"):
            got_path += ">?"
        got_tm = "expired" if leaf.not_valid_after < now else "notyet" if leaf.not_valid_before > now else \
            "inter-expired" if any(c.not_valid_after < now for c in certs[1:]) else "ok"
        got_rev = "leaf" if leaf.serial_number in crl_rev else "inter" if any(c.serial_number in crl_rev for c in certs[1:]) else "no"
        try:
            ek = set(leaf.extensions.get_extension_for_class(x509.ExtendedKeyUsage).value)
            got_eku = "both" if {E.SERVER_AUTH, E.CLIENT_AUTH} <= ek else "server" if E.SERVER_AUTH in ek else \
                "client" if E.CLIENT_AUTH in ek else "other"
        except x509.ExtensionNotFound:
            got_eku = "none"
        got_names = [cn(leaf.subject)]
        try:
            got_names += leaf.extensions.get_extension_for_class(x509.SubjectAlternativeName).value.get_values_for_type(x509.DNSName)
        except x509.ExtensionNotFound:
            pass
        want = (path, tm, revoked, eku, set(names.split(":")))
        got = (got_path, got_tm, got_rev, got_eku, set(got_names))
        if want != got:
            chk.broke("pki/c09: kind %s is described as %s but the files say %s" % (name, want, got))
        # margins: nothing may flip during a thorough run
        for c in certs:
            for t in (c.not_valid_after, c.not_valid_before):
                if abs((t - now).total_seconds()) < 6 * 3600:
                    chk.broke("pki/c09: %s has a validity bound within 6 hours of now" % name)
        n += 1
    return n


def plan(tier):
    q = tier == "quick"
    cfgs = []
    for tp in TPS:
        for part in ("core", "strict", "mixed", "trust", "crlv", "invalid", "nocert", "ovr"):
            cfgs.append(("tp=%s,part=%s" % (tp, part), 0))
    if not q:
        for tp in TPS:
            cfgs.append(("tp=%s,part=cover,menu=0x%x" % (tp, DEFAULT_MENU), 1))
        cfgs.append(("tp=tls,part=cover2,menu=0x%x" % DEFAULT_MENU, 2))
        for tp in TPS:
            for part in ("x2", "x1"):
                cfgs.append(("tp=%s,part=%s" % (tp, part), 0))
        cfgs.append(("tp=tls,part=trustdeep", 0))
        for tp in TPS:
            cfgs.append(("tp=%s,part=full" % tp, 0))
    return cfgs


def prepare_replay(art):
    ensure_pki()
    harnesses.build_explorer_harness("h_tls", variant=art.get("build", "plain"))


def run(chk, tier, jobs, deadline):
    chk.assumptions += ASSUME
    ensure_pki()
    nkinds = verify_pki(chk)
    exe = harnesses.build_explorer_harness("h_tls")
    dl = deadline or (420 if tier == "quick" else 2700)
    t_end = time.time() + dl
    tot = dict(executions=0, states=0, transitions=0, outcomes=0, points=0)
    counters = [0] * 24
    per_cfg = []
    samples = []
    completed_all = True
    for params, bound in plan(tier):
        params += ",pki=" + PKI
        left = t_end - time.time()
        if left < 3:
            chk.deadline_hit = True
            completed_all = False
            per_cfg.append(dict(params=params, bound=bound, skipped="tier deadline reached"))
            continue
        res = harnesses.explore(exe, params, bound, left, jobs=jobs)
        # INFO lines with their real multiplicities
        for i in res.pop("infos", []):
            key = "C09/" + i["key"] if not i["key"].startswith("C09/") else i["key"]
            chk.infos.setdefault(key, dict(text=i["text"], count=0))["count"] += i.get("count", 1)
        for v in res.get("violations", []):
            if v.get("crash"):
                sig = harnesses.refine_crash_signature(v)
                chk.infos.setdefault("C09/" + sig, dict(text="process died in a cell (not a fail-open; see C08): %s [%s]" %
                                                        (v["text"], params), count=0))["count"] += v.get("count", 1)
        harnesses.merge_into(chk, res, PREFIXES, params)
        tot["executions"] += res.get("executions", 0)
        tot["states"] += res.get("states", 0)
        tot["transitions"] += res.get("transitions", 0)
        tot["outcomes"] += res.get("distinct_outcomes", 0)
        tot["points"] += res.get("points_total", 0)
        for i, c in enumerate(res.get("counters", [])[:24]):
            counters[i] += c
        if res.get("completed_bound", -1) < bound:
            completed_all = False
        per_cfg.append(dict(params=params.replace(",pki=" + PKI, ""), bound=bound, completed_bound=res.get("completed_bound"),
                            executions=res.get("executions"), executions_per_level=res.get("executions_per_level"),
                            cells=res.get("executions_per_level", [0])[0] if res.get("executions_per_level") else None,
                            states=res.get("states"), transitions=res.get("transitions"),
                            distinct_outcomes=res.get("distinct_outcomes"), max_choice_points=res.get("max_points"),
                            wall_s=round(res.get("elapsed", 0), 2)))
        smp = res.get("samples", [])
        for s in smp[-1:] if len(per_cfg) % 2 else smp[:1]:
            if len(samples) < 12 and (bound or len(per_cfg) % 7 in (1, 2, 4)):
                samples.append(dict(scenario=params.replace(",pki=" + PKI, ""), execution=s))
    if counters[8]:
        # a hole in the matrix (only possible when the explorer could not give its workers a private network namespace)
        completed_all = False
        chk.info("C09/void-cells", "%d cell(s) were not judged because a utls connection went over UX to a foreign process" % counters[8])
    cells = sum(c.get("cells") or 0 for c in per_cfg)
    chk.add_cov(states=tot["states"], transitions=tot["transitions"], traces_validated_against_impl=tot["executions"],
                executions=tot["executions"], cells=cells, handshakes=counters[1], oracle_judgements=counters[7],
                distinct_outcomes_summed=tot["outcomes"], choice_points_total=tot["points"], configurations=len(per_cfg),
                credential_kinds=nkinds, per_configuration=per_cfg, samples=samples,
                bounds="every cell under the default environment (bound 0)" +
                       ("" if tier == "quick" else "; covering subset (4 placements x 10 policies x 20 kinds x 3 transports) with every single "
                                                   "environment/schedule deviation (bound 1); 12 cells on tls with every pair (bound 2)"),
                exhaustive=completed_all and not chk.deadline_hit)
    chk.add_cov(**{n: counters[i] for i, n in COUNTERS.items()})
