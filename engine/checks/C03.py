"""C03 - a failed send leaves no trace; a successful send is delivered exactly once."""
from checks import msgfamily

LEVEL = "model_checking"
PREFIXES = ("C03/",)

ASSUME = [
    "tf=1 configurations: a send(2) on an established TCP socket may be answered -1/ENOBUFS or -1/ENOMEM once with the "
    "connection unaffected (send(2) documents both); the application flushes, re-offers the same message and flushes",
    "sizes {0, 1, 65535, 65536, 2^20}; failure points: EAGAIN from the lower layer at every write (deviation), EINTR at every "
    "blocking wait inside xcm_send (deviation 'signal'), EMSGSIZE/EINVAL by size; after a failed call the application either "
    "re-sends the same message or moves on to the next one",
    "'as if the call had not been made' is read on the observable state: from_app/to_app counters and the multiset finally "
    "delivered, not on how far an earlier frame has been flushed meanwhile",
    "byte-stream transports are exempt from the zero-length clause",
]


def configs(tier):
    q = tier == "quick"
    c = []
    M = "cnt=1,prop=C03,probe=0"
    # (the byte-stream retry policies first: cheap, and a tier deadline cuts from the end)
    for tp, dq, dt in (("btcp", 3, 4), ("btls", 2, 3)):
        c.append(("tp=%s,script=S1,ma=b,mb=b,sig=1,resend=1,%s" % (tp, M), dq if q else dt))
        for pol in ("same", "shorter", "different", "longer"):
            c.append(("tp=%s,script=R1,retry=%s,%s" % (tp, pol, M), dq if q else dt))
    # a send(2) answered ENOBUFS/ENOMEM with the connection itself unaffected (tf=1), after which the application
    # flushes, offers the same message again and flushes: a message whose xcm_send returned -1 must never arrive
    for tp, dq, dt in (("tcp", 2, 3), ("tls", 1, 2), ("utlstls", 1, 2)):
        c.append(("tp=%s,script=T1s,style=spec,tf=1,menu=0,%s" % (tp, M), dq if q else dt))
        c.append(("tp=%s,script=T1s,ma=b,mb=b,tf=1,menu=0,%s" % (tp, M), dq if q else dt))
        c.append(("tp=%s,script=T2,style=loop,tf=1,menu=0x9,%s" % (tp, M), dq if q else dt))
    for tp, dq, dt in (("tcp", 3, 4), ("ux", 3, 4), ("uxf", 3, 4), ("utls", 3, 4), ("tls", 2, 3), ("utlstls", 2, 3)):
        # sizes, non-blocking and blocking
        c.append(("tp=%s,script=T5,style=spec,%s" % (tp, M), max(1, (dq if q else dt) - 1)))
        c.append(("tp=%s,script=T5,ma=b,mb=b,%s" % (tp, M), max(1, (dq if q else dt) - 1)))
        # signals at every blocking wait; resend the same message / move on
        for resend in (1, 0):
            # (tcp at D=3 is 80k-165k executions per configuration: quick stays at 2 there)
            dsig = (dq if q else dt) - (1 if q and tp == "tcp" else 0)
            c.append(("tp=%s,script=T1s,ma=b,mb=b,sig=1,resend=%d,%s" % (tp, resend, M), dsig))
            c.append(("tp=%s,script=T6,ma=b,mb=nb,style=strict,sig=1,resend=%d,%s" % (tp, resend, M),
                      dsig - (1 if tp in ("tls", "utlstls") else 0)))
        # accepted, finished, closed: everything must have arrived before the peer sees the end
        c.append(("tp=%s,script=T4,style=spec,%s" % (tp, M), dq if q else dt))
        c.append(("tp=%s,script=T4,ma=b,mb=nb,style=spec,%s" % (tp, M), (dq if q else dt) - 1))
        # EAGAIN refusals with re-send (non-blocking): duplicates would show
        c.append(("tp=%s,script=T2,style=loop,%s" % (tp, M), dq if q else dt))
    return c


def run(chk, tier, jobs, deadline):
    chk.assumptions += ASSUME
    msgfamily.run_configs(chk, "h_msg", configs(tier), PREFIXES, jobs,
                          deadline or (600 if tier == "quick" else 1500))
