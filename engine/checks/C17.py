"""C17 - traffic counters tell the truth.

The ledger oracle reads all eight xcm.* counters after EVERY API call of every explored execution and
compares them with the harness's own record of accepted sends and obtained receives."""
from checks import msgfamily

LEVEL = "model_checking"
PREFIXES = ("C17/",)

ASSUME = [
    "'sizes the applications really exchanged' = sizes sent; to_app = bytes returned to the caller",
    "a call refused with EAGAIN/EMSGSIZE/EINVAL must leave from_app and to_app unchanged; the lower-layer counters "
    "may move during it because an earlier frame may be flushed meanwhile",
    "histories: all executions with <= D deviations of the listed scenarios (partial writes/reads, truncating "
    "receives, refused and oversized sends, early close)",
]


def configs(tier):
    q = tier == "quick"
    c = []
    M = "cnt=1,prop=C17,probe=0"
    for tp, dq, dt in (("tcp", 2, 3), ("btcp", 2, 3), ("ux", 3, 4), ("uxf", 3, 4), ("utls", 3, 4),
                       ("tls", 2, 3), ("utlstls", 1, 2), ("btls", 2, 3)):
        bs = tp in ("btcp", "btls")
        scripts = (("S1", "spec"), ("S3", "spec"), ("S2", "spec")) if bs else \
            (("T1s", "spec"), ("T2", "loop"), ("T3", "spec"), ("T5", "spec"), ("T4", "spec"))
        for script, style in scripts:
            d = dq if q else dt
            if script in ("S2", "T5") and tp in ("tls", "utlstls", "btls"):
                d = max(1, d - 1)
            c.append(("tp=%s,script=%s,style=%s,%s" % (tp, script, style, M), d))
        c.append(("tp=%s,script=%s,ma=b,mb=b,%s" % (tp, "S3" if bs else "T6", M), dq if q else dt))
        # the peer closes; this end writes into the broken pipe first and only then reads what the peer had sent
        c.append(("tp=%s,script=%s,style=spec,%s" % (tp, "S5" if bs else "T7", M), min(2, dq) if q else dt))
    return c


def run(chk, tier, jobs, deadline):
    chk.assumptions += ASSUME
    msgfamily.run_configs(chk, "h_msg", configs(tier), PREFIXES, jobs,
                          deadline or (420 if tier == "quick" else 1500),
                          counter_names={3: "counter_vector_reads", 4: "idle_pair_comparisons"})
