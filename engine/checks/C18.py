"""C18 - each TLS connection uses the credentials designated at that moment.

Deciding step: explicit breadth-first search over update/connect HISTORIES (harness h_cred): every
sequence of operations of a family's alphabet up to the tier's depth, pruning only histories that
cannot be carried out, each replayed on fresh state (empty SSL_CTX cache, fresh files, fresh
environment) in a forked child against the real code, TLS over the envshim's emulated TCP.

Families (alphabets):
  main   RWF RWK MVO (rewrite live/*.pem in place with the equal-size other set: fresh mtime / mtime
         preserved / rename a new file over), FLD (flip the directory symlink), FLF (flip the per-file
         symlinks the by-file attributes point to), ENV (switch XCM_TLS_CERT to the other directory),
         S:def|file|val (server with no / by-file / by-value credential attributes),
         C:<client>/<accept> for def/inh file/inh val/inh def/file def/val (connection, kept open),
         X (close the oldest connection), XS (close the oldest server)
  files  the file-update part of main with default configurations only (goes one level deeper)
  kube   credential paths whose FINAL component is a symlink that is never replaced (Kubernetes secret volume:
         kube/<item>.pem -> ..data/<item>.pem, ..data -> ..gen1|..gen2): KDP (re-point ..data with symlink+rename),
         KRW / KMV (rewrite cert+key of the current generation in place with fresh mtime / rename new files over
         them), KTW / KTM (the same for the trust bundle: root2+root <-> root only, which flips the acceptance
         of client c2 of the other trust domain), ENK (XCM_TLS_CERT kube <-> live: default-directory form),
         S:def|kube, C:def/inh kube/inh def/kube c2/inh, X, XS.  The model takes what the path RESOLVES to at
         call time.
  netns  default credential files named after the network namespace of the calling THREAD (xcm.h, Per-network
         Namespace Certificates): XCM_TLS_CERT holds <item>.pem (set 0), <item>_nsA.pem (set A), <item>_nsB.pem (set B).
         Fixture per worker: private mount namespace, tmpfs over /run/netns, two new network namespaces bind-mounted
         as nsA / nsB.  SN0 SNA SNB (the main thread enters a namespace with setns), FKA FKB (fork: the rest of
         the history runs in the child, which first enters nsA / nsB), S:def, C:def/inh, S:def@tB, C:def/inh@tA,
         C:def/inh@tB (the same calls made by a fresh thread that enters the namespace first), X, XS.  Oracle: the
         peer-visible identity and tls.cert_file are those of the namespace the calling thread is in when
         xcm_server / xcm_connect is called; accepted sockets take the server's.  Connections are only attempted
         within one namespace and one process (loopback TCP does not cross namespaces).  Skipped with an INFO line
         when unshare/mount/setns are not permitted.
  netcrl the netns fixture with tls.check_crl=true and EVERY file left to the default naming (cert/key/tc/crl
         <item>_<ns>.pem): crl.pem = root2's CRL, crl_nsA.pem revokes peer `rev`, crl_nsB.pem revokes nobody.
         SN0 SNA SNB, SWC (crl_nsA.pem and crl_nsB.pem swap contents, rename-over), S:defcrl, C:rev/inh (the revoked
         peer, by value), C:val/inh (a good peer), C:defcrl/inh, X, XS.  Oracle: exactly the CRL file of the
         namespace governs: the good peer connects, the revoked one is refused where - and only where - the
         namespace's file holds the revoking bundle at call time.
  bad:<file|value>:chain-<shape>:cert   the certificate item is leaf + 1..2 extra PEM blocks, shape letters: G well-formed
         certificate, T DER cut short (armour and base64 intact), F first DER octet flipped, E empty body, W foreign
         label.  Reference parse per block (generic PEM reader + d2i_X509): a block under a certificate label that
         does not decode, or broken armour/base64, anywhere => EPROTO and nothing cached; foreign labels are passed
         over (RFC 7468; the key+certificate-in-one-file layout depends on it); all-G/W shapes are valid material.
  split  by-value configurations whose item boundaries differ but whose concatenation is equal
         (s1: cert=leaf+intermediate,key=key  s2: cert=leaf,key=intermediate+key;
          s3: key=key+root2,tc=root  s4: key=key,tc=root2+root), s5 = s4 with tc=root only (differs in ONE item),
         clients def and c2 (other trust domain)
  bad:<file|value>:<kind>:<item>   failure material (missing, empty, garbage, truncated, dangling symlink,
         directory in place of the file, mismatching key) for one item, designated by file attribute,
         by value, or by breaking/fixing the default directory (BRK/FIX), on connect / server / accept

Oracle (reference model in the harness, independent of ctx_store): for every connection the subject
key id, CN and names the OTHER side sees == the certificate designated when xcm_connect / xcm_accept
was called (attributes first, else XCM_TLS_CERT and files as they then stood); a connection is
established iff each side's designated chain verifies against the other's designated trust roots;
after every operation every established connection still passes a message each way and shows the
same peer; bad material => the call fails with EPROTO; SSL_CTX_new - SSL_CTX_free (as called by
ctx_store.c) never exceeds the number of open TLS sockets and is 0 after the last close.
"""
import json
import os
import shutil
import subprocess
import sys
import time

sys.path.insert(0, os.path.dirname(os.path.dirname(os.path.abspath(__file__))))
import build  # noqa: E402
import harnesses  # noqa: E402
from checks import msgfamily  # noqa: E402

LEVEL = "model_checking"
LOGS = os.path.join(build.BUILD, "logs")
REPLAY_ROOT = os.path.join(harnesses.RUN_DIR, "C18-replay")

ASSUME = [
    "bounds: every operation sequence up to the stated depth per family (state = the history, no state merging); "
    "a violation that needs a longer history, or operations of different families in one history beyond what the "
    "main family combines, is not excluded",
    "two complete credential sets A and B of identical PEM sizes under one root, a third set under another root, a leaf "
    "issued by an intermediate; mtimes are set explicitly (fresh = strictly increasing, preserved = restored with "
    "utimensat as cp -p / rsync -t do), so nothing depends on the wall clock or the kernel's timestamp granularity",
    "rename-over updates always get a fresh mtime (an inode number recycled by the file system together with a preserved "
    "mtime is not explored: inode allocation is not under the harness's control)",
    "single thread; TLS over emulated TCP with the default environment (no I/O deviations); OpenSSL randomness deterministic; "
    "the SSL_CTX cache is NOT primed (it is under test)",
    "unreadable by permission (EACCES) is not reachable as root; unreadable = missing, dangling symlink, directory",
    "the identity clause reads xcm.h literally: 'The current value of XCM_TLS_CERT (at the time of xcm_connect() or "
    "xcm_accept()) determines the certificate directory used for that connection'",
]

BAD_FILE_KINDS = ("missing", "empty", "garbage", "trunc", "dangling", "dir")
BAD_VALUE_KINDS = ("empty", "garbage", "trunc")
ITEMS = ("cert", "key", "tc")


def bad_families():
    f = ["bad:file:%s:%s" % (k, i) for k in BAD_FILE_KINDS for i in ITEMS] + ["bad:file:mismatch:key"]
    f += ["bad:value:%s:%s" % (k, i) for k in BAD_VALUE_KINDS for i in ITEMS] + ["bad:value:mismatch:key"]
    return f


CHAIN_BLOCKS = "GTFEW"


def chain_families():
    """leaf + 1..2 extra PEM blocks, every block kind at every position, designated by file and by value"""
    shapes = [a for a in CHAIN_BLOCKS] + [a + b for a in CHAIN_BLOCKS for b in CHAIN_BLOCKS]
    return ["bad:%s:chain-%s:cert" % (form, sh) for form in ("file", "value") for sh in shapes]


def plan(tier):
    """Stages, run one after the other; the runs of one stage share the cores.  (family, depth, build).
    The deepest levels come last so that a tier deadline cuts those."""
    bad = bad_families()
    if tier == "quick":
        # cheap stages first: a deadline on a loaded machine then cuts the bulk, not the breadth
        return [[("main", 3, "plain")], [("netcrl", 3, "plain")], [(f, 2, "plain") for f in chain_families()],
                [("kube", 3, "plain")], [("netns", 4, "plain")], [("split", 3, "plain")], [("files", 4, "plain")],
                [("main", 2, "asan"), ("split", 2, "asan"), ("kube", 2, "asan"), ("netns", 2, "asan")],
                [(f, 3, "plain") for f in bad]]
    # main contains the alphabets of files and attrs, so main d covers them to depth d
    return [[("main", 4, "plain")], [("kube", 4, "plain")], [("netns", 5, "plain")], [("netcrl", 5, "plain")],
            [("split", 4, "plain")], [(f, 3, "plain") for f in chain_families()],
            [(f, 4, "plain") for f in bad],
            [("main", 3, "asan"), ("split", 3, "asan"), ("kube", 3, "asan"), ("netns", 3, "asan")],
            [(f, 2, "asan") for f in bad],
            [(f, 5, "plain") for f in bad],
            [("files", 6, "plain")], [("main", 5, "plain")]]


def _split_pem_certs(text):
    end = "-----END CERTIFICATE-----\n"
    return [p + end for p in text.split(end) if p.strip()]


def prepare_material(dst):
    """Snapshot the PKI sets this check needs (another job may regenerate build/pki at any time) and verify them."""
    from cryptography import x509
    from cryptography.hazmat.primitives import serialization
    msgfamily.ensure_pki()
    pki = msgfamily.PKI
    for attempt in range(5):
        shutil.rmtree(dst, ignore_errors=True)
        os.makedirs(dst)
        try:
            for d, src in (("A", "good_a"), ("B", "good_b"), ("C", "other_domain")):
                os.makedirs(os.path.join(dst, d))
                for f in ("cert.pem", "key.pem", "tc.pem"):
                    shutil.copyfile(os.path.join(pki, src, f), os.path.join(dst, d, f))
            os.makedirs(os.path.join(dst, "I"))
            parts = _split_pem_certs(open(os.path.join(pki, "peer_via_inter", "cert.pem")).read())
            if len(parts) != 2:
                raise ValueError("peer_via_inter/cert.pem does not hold leaf + intermediate")
            open(os.path.join(dst, "I", "leaf.pem"), "w").write(parts[0])
            open(os.path.join(dst, "I", "inter.pem"), "w").write(parts[1])
            shutil.copyfile(os.path.join(pki, "peer_via_inter", "key.pem"), os.path.join(dst, "I", "key.pem"))
            os.makedirs(os.path.join(dst, "R"))
            for f in ("cert.pem", "key.pem"):
                shutil.copyfile(os.path.join(pki, "peer_revoked", f), os.path.join(dst, "R", f))
            shutil.copyfile(os.path.join(pki, "crl_revoking.pem"), os.path.join(dst, "crl_rev.pem"))
            shutil.copyfile(os.path.join(pki, "crl_empty.pem"), os.path.join(dst, "crl_empty.pem"))
            shutil.copyfile(os.path.join(pki, "other_domain", "crl.pem"), os.path.join(dst, "crl_r2.pem"))
            shutil.copyfile(os.path.join(pki, "root.pem"), os.path.join(dst, "root.pem"))
            shutil.copyfile(os.path.join(pki, "root2.pem"), os.path.join(dst, "root2.pem"))

            def pub(cert_path):
                c = x509.load_pem_x509_certificate(open(cert_path, "rb").read())
                return c.public_key().public_bytes(serialization.Encoding.DER,
                                                   serialization.PublicFormat.SubjectPublicKeyInfo), c

            def keypub(p):
                k = serialization.load_pem_private_key(open(p, "rb").read(), None)
                return k.public_key().public_bytes(serialization.Encoding.DER,
                                                   serialization.PublicFormat.SubjectPublicKeyInfo)
            root, _ = pub(os.path.join(dst, "root.pem"))
            for d, cert, key in (("A", "cert.pem", "key.pem"), ("B", "cert.pem", "key.pem"), ("C", "cert.pem", "key.pem"),
                                 ("I", "leaf.pem", "key.pem"), ("R", "cert.pem", "key.pem")):
                p, _c = pub(os.path.join(dst, d, cert))
                if p != keypub(os.path.join(dst, d, key)):
                    raise ValueError("set %s: key does not match certificate (PKI regenerated meanwhile?)" % d)
            for f in ("cert.pem", "key.pem", "tc.pem"):
                if os.path.getsize(os.path.join(dst, "A", f)) != os.path.getsize(os.path.join(dst, "B", f)):
                    raise ValueError("sets A and B differ in size of " + f)
            if open(os.path.join(dst, "A", "tc.pem")).read() != open(os.path.join(dst, "root.pem")).read():
                raise ValueError("set A does not trust exactly root.pem")
            if open(os.path.join(dst, "C", "tc.pem")).read() != open(os.path.join(dst, "root2.pem")).read():
                raise ValueError("set C does not trust exactly root2.pem")
            return dst
        except (ValueError, OSError) as e:  # noqa: PERF203
            err = e
            time.sleep(1.0)
    raise RuntimeError("cannot snapshot PKI material: %s" % err)


def build_exe(variant):
    return harnesses.build_explorer_harness("h_cred", variant=variant, extra_wraps=["SSL_CTX_new", "SSL_CTX_free"])


def replay_cmd(variant, family, history):
    exe = os.path.join(build.BUILD, "bin", "h_cred.%s" % variant)
    return "%s --mat %s/mat --root %s/r --family '%s' --replay '%s'" % (exe, REPLAY_ROOT, REPLAY_ROOT, family, history)


def prepare_replay(art):
    """run_check.py --replay: rebuild the harness from the current tree and lay out the material again"""
    build_exe(art.get("build", "plain"))
    prepare_material(os.path.join(REPLAY_ROOT, "mat"))


def run(chk, tier, jobs, deadline):
    chk.assumptions += ASSUME
    dl = deadline or (420 if tier == "quick" else 1700)
    t_end = time.time() + dl
    root = os.path.join(harnesses.RUN_DIR, "C18-%d" % os.getpid())
    os.makedirs(LOGS, exist_ok=True)
    exes = {}
    per_family = []
    samples = []
    tot = dict(histories=0, steps=0, conn_attempts=0, conn_established=0, refused=0, eproto=0, keepalive=0,
               identity=0, ctx=0, crashes=0, abandoned=0, infeasible=0)
    all_complete = True
    skipped = {}
    try:
        mat = prepare_material(os.path.join(root, "mat"))
        import itertools
        seq = itertools.count(1)

        def launch(item, njobs):
            family, depth, variant = item
            left = t_end - time.time()
            if left < 2:
                return item, None, None
            env = harnesses.asan_env() if variant == "asan" else None
            n = next(seq)
            cmd = [exes[variant], "--mat", mat, "--root", os.path.join(root, "r%d" % n), "--family", family,
                   "--depth", str(depth), "--jobs", str(njobs), "--deadline", str(max(1, int(left)))]
            r = subprocess.run(cmd, capture_output=True, env=env)
            return item, r, r.stdout.decode(errors="replace")

        for stage in plan(tier):
            for variant in set(v for _, _, v in stage):
                if variant not in exes:
                    exes[variant] = build_exe(variant)
            if len(stage) == 1:
                results = [launch(stage[0], jobs)]
            else:
                from concurrent.futures import ThreadPoolExecutor
                par = max(1, min(len(stage), jobs // 2))
                with ThreadPoolExecutor(max_workers=par) as ex:
                    results = list(ex.map(lambda it: launch(it, max(1, jobs // par)), stage))
            for (family, depth, variant), r, out in results:
                if r is None:
                    chk.deadline_hit = True
                    all_complete = False
                    per_family.append(dict(family=family, depth=depth, build=variant, skipped="tier deadline reached"))
                    continue
                done = False
                for line in out.splitlines():
                    try:
                        j = json.loads(line)
                    except ValueError:
                        continue
                    k = j.get("kind")
                    if k == "stats":
                        tot["histories"] += j["histories"]
                        tot["steps"] += j["steps"]
                        tot["conn_attempts"] += j["conn_attempts"]
                        tot["conn_established"] += j["conn_established"]
                        tot["refused"] += j["conn_refused_as_expected"]
                        tot["eproto"] += j["bad_material_refused_with_EPROTO"]
                        tot["keepalive"] += j["keepalive_checks"]
                        tot["identity"] += j["identity_checks"]
                        tot["ctx"] += j["ssl_ctx_created"]
                        tot["crashes"] += j["crashes"]
                        tot["abandoned"] += j["abandoned"]
                        tot["infeasible"] += j["infeasible_pruned"]
                        per_family.append(dict(family=family, build=variant, alphabet=j["alphabet"], depth_requested=depth,
                                               depth_completed=j["depth_completed"], histories=j["histories"],
                                               histories_per_level=j["per_level"], steps=j["steps"],
                                               connections_established=j["conn_established"],
                                               abandoned=j["abandoned"], wall_s=j["wall_s"], cpu_s=j["cpu_s"]))
                        if j["depth_completed"] < depth:
                            all_complete = False
                    elif k == "finding":
                        rep = dict(harness="h_cred", family=family, history=j["history"], build=variant,
                                   occurrences_in_family=j["count"],
                                   replay_cmd=replay_cmd(variant, family, j["history"]),
                                   note="python3 engine/run_check.py --replay <this file> lays the material out again first")
                        chk.finding(j["sig"], "%s  [family %s, shortest history: %s; %d histories of this run show it]" %
                                    (j["text"], family, j["history"], j["count"]), rep)
                    elif k == "sample" and len(samples) < 12 and j["text"].count(",") >= 2:
                        samples.append(dict(family=family, history=j["text"]))
                    elif k == "skipped":
                        done_skip = j.get("reason", "")
                        chk.info("netns-family-skipped", "netns family skipped (no privilege): %s" % done_skip)
                        skipped["netns_family"] = "skipped (no privilege): %s" % done_skip
                    elif k == "broke":
                        chk.broke("%s: %s" % (family, j["text"]))
                    elif k == "done":
                        done = True
                        if j.get("deadline_hit"):
                            chk.deadline_hit = True
                            all_complete = False
                if not done:
                    chk.broke("h_cred %s depth %d produced no result (rc=%d): %s" %
                              (family, depth, r.returncode, r.stderr.decode(errors="replace")[-600:]))
    finally:
        shutil.rmtree(root, ignore_errors=True)
    depths = {}
    for pf in per_family:
        if "depth_completed" in pf:
            fam = pf["family"].split(":")[0] if pf["family"].startswith("bad:") else pf["family"]
            if fam == "bad" and ":chain-" in pf["family"]:
                fam = "bad-chain"
            key = "%s/%s" % (fam, pf["build"])
            if fam.startswith("bad"):
                # the bad family is complete to depth d only if every parameter reached d
                depths.setdefault(key, {}).setdefault(pf["depth_requested"], []).append(pf["depth_completed"])
            else:
                depths[key] = max(depths.get(key, 0), pf["depth_completed"])
    for key, v in list(depths.items()):
        if isinstance(v, dict):
            best = 0
            for req, got in v.items():
                want = len(chain_families()) if key.startswith("bad-chain") else len(bad_families())
                if len(got) == want and min(got) >= req:
                    best = max(best, req)
            depths[key] = best
    # one evidence row per (depth, build) for the 29 bad:* parameterisations
    rows, agg = [], {}
    for pf in per_family:
        if pf["family"].startswith("bad:") and "depth_completed" in pf:
            a = agg.setdefault((pf["depth_requested"], pf["build"]),
                               dict(family="bad:* (failure kinds and chain shapes)", build=pf["build"],
                                    depth_requested=pf["depth_requested"], depth_completed=99, parameterisations=0,
                                    histories=0, steps=0, connections_established=0, abandoned=0, wall_s=0.0, cpu_s=0.0))
            a["depth_completed"] = min(a["depth_completed"], pf["depth_completed"])
            a["parameterisations"] += 1
            for k in ("histories", "steps", "connections_established", "abandoned", "wall_s", "cpu_s"):
                a[k] = round(a[k] + pf[k], 1)
        else:
            rows.append(pf)
    per_family = rows + list(agg.values())
    # states = distinct canonical cases = distinct (family, history) pairs: per family the deepest run counts once
    deepest = {}
    for pf in per_family:
        if "depth_completed" in pf:
            k = pf["family"]
            if k not in deepest or pf["histories"] > deepest[k]:
                deepest[k] = pf["histories"]
    distinct = sum(deepest.values())
    chk.add_cov(states=distinct, transitions=tot["steps"], traces_validated_against_impl=tot["histories"],
                states_definition="distinct (family, history) pairs; executions also counts the re-runs at lower depth "
                                  "and under ASan; transitions = operations executed and checked by the oracle",
                executions=tot["histories"], histories=tot["histories"], operations_checked=tot["steps"],
                connection_attempts=tot["conn_attempts"], connections_established=tot["conn_established"],
                connections_refused_as_the_model_demands=tot["refused"],
                bad_material_calls_that_failed_with_EPROTO=tot["eproto"],
                keepalive_checks_of_established_connections=tot["keepalive"], identity_checks=tot["identity"],
                ssl_ctx_created=tot["ctx"], crashes=tot["crashes"], histories_abandoned_at_a_violation=tot["abandoned"],
                infeasible_extensions_pruned=tot["infeasible"], completed_depth_per_family=depths,
                families=len(set(p["family"] for p in per_family)), per_family=per_family,
                netns_family=skipped.get("netns_family", "run"),
                samples=samples or [dict(note="no history of length >= 3 completed")],
                exhaustive=all_complete and not chk.deadline_hit)
