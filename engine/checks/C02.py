"""C02 - byte-stream transports deliver exactly the accepted bytes, in order."""
from checks import msgfamily

LEVEL = "model_checking"
PREFIXES = ("C02/", "crash/")

ASSUME = [
    "stream bytes are patterned by absolute stream offset (shifts, duplicates, gaps and foreign bytes are visible); "
    "the transports never branch on payload bytes",
    "deviations offered at every send/recv below XCM and below OpenSSL (the BIO bottoms out in the same wrapped calls): "
    "1 byte, half, all-but-one, EAGAIN, persistent write stall, trickle; <= D in total including preemptions",
    "retry policies after a refused send: same data, longer data with the same prefix, different data, shorter data",
]


def configs(tier):
    q = tier == "quick"
    c = []
    M = "cnt=0,prop=C02,probe=1"
    # (thorough = one deviation deeper than quick on every configuration; the TLS block first: a tier deadline cuts from the end)
    for tp, dq, dt in ((("btcp", 3, 4), ("btls", 2, 3)) if q else (("btls", 2, 3), ("btcp", 3, 4))):
        for script, style in (("S1", "spec"), ("S1", "strict"), ("S2", "spec"), ("S3", "spec")):
            d = dq if q else dt
            if script == "S2":
                d -= 1
            c.append(("tp=%s,script=%s,style=%s,%s" % (tp, script, style, M), d))
        # the accepted (server-side) socket as the sender of a write that spans several TLS records
        c.append(("tp=%s,script=S4,style=spec,%s" % (tp, M), (dq if q else dt) - 1))
        c.append(("tp=%s,script=S1,ma=b,mb=b,%s" % (tp, M), dq if q else dt))
        c.append(("tp=%s,script=S3,ma=b,mb=b,%s" % (tp, M), (dq if q else dt) - 1))
        c.append(("tp=%s,script=S2,ma=b,mb=nb,%s" % (tp, M), (dq if q else dt) - 1))
        # the peer sends, flushes and closes; this end first writes into the closed connection (EPIPE) and only then
        # reads: everything the peer had accepted must still come out before the end-of-stream, however recv() cuts it
        c.append(("tp=%s,script=S5,style=spec,%s" % (tp, M), dq if q else dt - 1))
        c.append(("tp=%s,script=S5,ma=b,mb=b,%s" % (tp, M), (dq if q else dt) - 1))
        # a blocking 40000-byte send that is accepted in part, has to wait, and is interrupted by a signal while it
        # waits (short write / stall + signal): the count of what was accepted must come back, not -1
        for resend in ((1, 0) if (tp == "btcp" or not q) else (1,)):
            c.append(("tp=%s,script=S2,ma=b,mb=nb,sig=1,resend=%d,%s" % (tp, resend, M), 3 if tp == "btcp" else 2))
        # retry policies after EAGAIN
        for pol in ("same", "longer", "different", "shorter"):
            c.append(("tp=%s,script=R1,retry=%s,%s" % (tp, pol, M), dq if q else min(dt, 4)))
        c.append(("tp=%s,script=S1,%s" % (tp, M), 1 if q else 2, "asan"))
        c.append(("tp=%s,script=R1,retry=different,%s" % (tp, M), 1 if q else 2, "asan"))
    return c


def run(chk, tier, jobs, deadline):
    chk.assumptions += ASSUME
    msgfamily.run_configs(chk, "h_msg", configs(tier), PREFIXES, jobs,
                          deadline or (600 if tier == "quick" else 1500))
