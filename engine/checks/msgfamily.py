"""Shared driver for the checks that are decided by explorations of h_msg-like harnesses."""
import os
import sys
import time

sys.path.insert(0, os.path.dirname(os.path.dirname(os.path.abspath(__file__))))
import build  # noqa: E402
import harnesses  # noqa: E402

PKI = os.path.join(build.BUILD, "pki")


def ensure_pki():
    import subprocess
    subprocess.run(["/usr/bin/python3", os.path.join(build.ENGINE, "pki", "make.py")], check=True,
                   stdout=subprocess.DEVNULL)


def certs(name="good_a"):
    return "certs=" + os.path.join(PKI, name)


def needs_tls(params):
    return any(("tp=" + t) in params for t in ("tls", "utls", "utlstls", "btls"))


def run_configs(chk, harness, configs, prefixes, jobs, deadline_s, variant_of=None, extra_build=None,
                counter_names=None):
    """configs: list of (params, bound[, variant]).  Runs every exploration to completion unless the
    tier's wall-clock deadline is reached (then reports what was completed)."""
    ensure_pki()
    exes = {}
    t_end = time.time() + deadline_s
    tot = dict(executions=0, states=0, transitions=0, outcomes=0, points=0)
    per_cfg = []
    samples = []
    counters = [0] * 24
    completed_all = True
    for cfg in configs:
        params, bound = cfg[0], cfg[1]
        variant = cfg[2] if len(cfg) > 2 else "plain"
        if needs_tls(params) and "certs=" not in params:
            params += "," + certs()
        if variant not in exes:
            kw = extra_build or {}
            exes[variant] = harnesses.build_explorer_harness(harness, variant=variant, **kw)
        left = t_end - time.time()
        if left < 3:
            chk.deadline_hit = True
            completed_all = False
            per_cfg.append(dict(params=params, bound=bound, build=variant, skipped="tier deadline reached"))
            continue
        env = harnesses.asan_env() if variant == "asan" else None
        # fairness between configurations: none may take more than three times its even share of what is left (the
        # explorer completes the bounds 0..D in turn, so a configuration that is cut reports the bound it completed)
        n_left = len(configs) - len(per_cfg)
        share = max(150.0 if deadline_s <= 900 else 60.0, 3.0 * left / max(1, n_left))
        res = harnesses.explore(exes[variant], params, bound, min(left, share), jobs=jobs, env=env)
        if res.get("deadline_hit"):
            chk.deadline_hit = True
        harnesses.merge_into(chk, res, prefixes, params, build_variant=variant)
        tot["executions"] += res.get("executions", 0)
        tot["states"] += res.get("states", 0)
        tot["transitions"] += res.get("transitions", 0)
        tot["outcomes"] += res.get("distinct_outcomes", 0)
        tot["points"] += res.get("points_total", 0)
        for i, c in enumerate(res.get("counters", [])[:24]):
            counters[i] += c
        if res.get("completed_bound", -1) < bound:
            completed_all = False
        per_cfg.append(dict(params=params, bound=bound, build=variant,
                            completed_bound=res.get("completed_bound"),
                            executions=res.get("executions"), states=res.get("states"),
                            transitions=res.get("transitions"),
                            distinct_outcomes=res.get("distinct_outcomes"),
                            executions_per_level=res.get("executions_per_level"),
                            max_choice_points=res.get("max_points"),
                            wall_s=round(res.get("elapsed", 0), 2)))
        for s in res.get("samples", [])[:2]:
            if len(samples) < 12:
                samples.append(dict(scenario=params, execution=s))
    chk.add_cov(states=tot["states"], transitions=tot["transitions"],
                traces_validated_against_impl=tot["executions"], executions=tot["executions"],
                evaluations=tot["executions"], distinct_outcomes_summed=tot["outcomes"],
                choice_points_total=tot["points"], configurations=len(configs), per_configuration=per_cfg,
                samples=samples, exhaustive=completed_all and not chk.deadline_hit)
    if counter_names:
        chk.add_cov(**{n: counters[i] for i, n in counter_names.items()})
    return tot, counters
