"""C13 - name resolution and multi-address connect follow the selected algorithm.

Harness h_dns: the world table (resolver answer list x per-address accept/refuse/silent x resolver
behaviour x dns.algorithm x xcm.local_addr x tcp.connect_timeout x dns.timeout x reporting call) is
itself chosen by FREE choice points at the start of every execution, so one explorer run enumerates
(every table of a slice) x (every event order / environment deviation with <= D deviations inside the
table): which connect completion, DNS arrival or timer expiry lands first, connection establishments
withheld until an explicit event, the application being late to service a wake-up.
Oracle `connect-alg` (DESIGN 2/C13, 4.1): single = only the first address is ever passed to connect();
sequential = connected to the first accepting address in list order, else errno of the last failed
attempt; happy_eyeballs = connected iff some address accepts, else errno of the last failed attempt of
either track; ENOENT for failed / timed-out resolution; ETIMEDOUT not before tcp.connect_timeout;
outcome within dns.timeout + attempts x tcp.connect_timeout (+0.2 s); every bind() carries exactly the
configured local address and xcm_local_addr of the result shows it; xcm_server on unresolvable names
returns NULL/ENOENT.  The 200 ms IPv4 delay is INFO only.
"""
import os
import re
import subprocess
import sys
import time

sys.path.insert(0, os.path.dirname(os.path.dirname(os.path.abspath(__file__))))
import build  # noqa: E402
import harnesses  # noqa: E402
from checks import msgfamily  # noqa: E402

LEVEL = "model_checking"
PREFIX = "C13/"
HARNESS = "h_dns"

ASSUME = [
    "TCP is emulated over AF_UNIX stream sockets by the shim (DESIGN 1.2/1.6): connect() answers EINPROGRESS and the world table "
    "decides accept / ECONNREFUSED / silence per address; a second bind() after connect(AF_UNSPEC) succeeds iff the first bind "
    "used port 0 and fails with EINVAL if it named a port (probed on real loopback TCP of this kernel); a bind with an address of "
    "the other family fails with EAFNOSUPPORT",
    "c-ares is replaced by a stub of the ten ares_* entry points xcm_dns_cares.c uses: answer at once (inside ares_getaddrinfo), "
    "late (environment event), failure at once / late, silence",
    "time is virtual: timers fire only through the explorer's clock event, which jumps to the next programmed expiry (+1 us)",
    "address alphabet {127.0.0.1, 127.0.0.2, ::1, fd00::2}; 'canonical' slices use only lists in which the second address of a "
    "family occurs after the first (renaming symmetry of same-family addresses); local addresses 127.0.0.9 / fd00::9",
    "an address that accepts/refuses may still end in ETIMEDOUT when the environment withheld its answer, or the application did not "
    "service its wake-up, for >= tcp.connect_timeout of virtual time: in exactly those executions (counted as "
    "oracle_relaxed_executions) only the invariants are demanded (eligible peer, errno of some attempt, bounds, local address)",
    "an address whose family differs from the configured xcm.local_addr cannot be connected from it: such an attempt counts as "
    "failed with EAFNOSUPPORT",
    "tls, btls, utls peers are real XCM servers (0.0.0.0 and ::1, alphabet without fd00::2); btcp and tcp peers are raw wildcard "
    "listeners",
    "plain build: the harness overwrites the dead part of the caller's stack after every API call, so a pointer kept into a "
    "returned frame reads 0xA5..; the asan slice (stack-use-after-return detection on) reports the access itself",
]

COUNTERS = {0: "executions_counted_by_harness", 1: "oracle_exact_executions", 2: "oracle_relaxed_executions",
            3: "outcomes_connected", 4: "outcomes_failed", 5: "connect_calls_checked", 6: "bind_calls_checked"}


def P(tp="btcp", **kw):
    d = dict(tp=tp)
    d.update(kw)
    return ",".join("%s=%s" % (k, v) for k, v in d.items())


def configs(tier):
    """(label, params, bound, variant)"""
    q = tier == "quick"
    c = []
    A = lambda *x: c.append(x + ("plain",) if len(x) == 3 else x)     # noqa: E731
    # --- btcp: the shared code, the complete product -------------------------------------------------
    if q:
        A("btcp: all lists <=3, no local address", P(algs=7, dns=3, laddrs=1, ctos=3, dnstos=2, maxlen=3), 1)
        A("btcp: canonical lists <=3, local address v4/v6 x port 0/fixed",
          P(algs=7, dns=3, laddrs=30, ctos=1, dnstos=2, maxlen=3, canon=1), 1)
        A("btcp: canonical lists <=2, local addresses x short tcp.connect_timeout",
          P(algs=7, dns=3, laddrs=30, ctos=2, dnstos=2, maxlen=2, canon=1), 1)
    else:
        A("btcp: all lists <=3, no local address, D<=2", P(algs=7, dns=3, laddrs=1, ctos=3, dnstos=2, maxlen=3), 2)
        A("btcp: all lists of 4, no local address", P(algs=7, dns=3, laddrs=1, ctos=1, dnstos=2, minlen=4, maxlen=4), 1)
        A("btcp: canonical lists of 4, short tcp.connect_timeout", P(algs=7, dns=3, laddrs=1, ctos=2, dnstos=2, minlen=4, maxlen=4, canon=1), 1)
        A("btcp: all lists <=3, every local address kind", P(algs=7, dns=3, laddrs=30, ctos=1, dnstos=2, maxlen=3), 1)
        A("btcp: canonical lists of 4, local address v4:0 / v6:fixed",
          P(algs=7, dns=3, laddrs=18, ctos=1, dnstos=2, minlen=4, maxlen=4, canon=1), 1)
        A("btcp: canonical lists <=3, every local address kind, both timeouts, D<=2",
          P(algs=7, dns=3, laddrs=30, ctos=3, dnstos=2, maxlen=3, canon=1), 2)
        A("btcp: canonical lists <=2, D<=4", P(algs=7, dns=3, laddrs=31, ctos=3, dnstos=2, maxlen=2, canon=1), 4)
    d = 1 if q else 3
    A("btcp: resolver fails / fails late / silent, dns.algorithm unset too, every reporting call",
      P(algs=15, dns=28, laddrs=3, dnstos=3, probes=7), d)
    A("btcp: late resolver against the default dns.timeout, dns.algorithm unset too",
      P(algs=15, dns=2, laddrs=1, ctos=1, dnstos=1, maxlen=2, canon=1), 1 if q else 2)
    A("btcp: outcome reported by xcm_send / xcm_receive",
      P(algs=7, dns=3, laddrs=1 if q else 3, ctos=1, dnstos=2, maxlen=2 if q else 3, probes=6, canon=1), 1)
    if not q:
        A("btcp: outcome reported by xcm_send / xcm_receive, D<=2", P(algs=7, dns=3, laddrs=1, ctos=3, dnstos=2, maxlen=2, probes=6, canon=1), 2)
    for total, hit in ((33, 31), (40, 36), (32, 31)):
        A("btcp: %d-entry answer, only #%d accepts (32-entry cap)" % (total, hit),
          P(fam="cap", algs=6, dns=3, laddrs=3 if total == 33 else 1, ctos=1, dnstos=2, total=total, hit=hit), 1 if q else 2)
    # --- the other transports reach the same code through their own connect/finish/send/receive -------
    if q:
        A("tcp: canonical lists <=2, every reporting call", P("tcp", algs=7, dns=3, laddrs=3, ctos=3, dnstos=2, maxlen=2, probes=7, canon=1), 1)
    else:
        A("tcp: canonical lists <=3, local address none / v4:0 / v6:0, every reporting call",
          P("tcp", algs=7, dns=3, laddrs=11, ctos=1, dnstos=2, maxlen=3, probes=7, canon=1), 1)
        A("tcp: all lists <=2, D<=2", P("tcp", algs=7, dns=3, laddrs=3, ctos=3, dnstos=2, maxlen=2, probes=1), 2)
    for tp in ("tls", "btls", "utls"):
        if q:
            A("%s: canonical lists <=2 against XCM servers" % tp, P(tp, algs=6, dns=3, laddrs=1, ctos=1, dnstos=2, maxlen=2, canon=1), 1)
            A("%s: canonical lists of 2, local address, every reporting call" % tp,
              P(tp, algs=2, dns=1, laddrs=2, ctos=1, minlen=2, maxlen=2, canon=1, probes=7), 1)
        else:
            A("%s: canonical lists <=2 against XCM servers, every reporting call" % tp,
              P(tp, algs=7, dns=3, laddrs=3, ctos=1, dnstos=2, maxlen=2, canon=1, probes=7), 1)
            A("%s: canonical lists <=2, short tcp.connect_timeout, D<=2" % tp,
              P(tp, algs=6, dns=1, laddrs=1, ctos=2, maxlen=2, canon=1), 2)
    for tp in ("btcp", "tcp", "tls", "btls", "utls"):
        A("%s: xcm_server on unknown / failing / late-failing / silent / late / resolvable names" % tp, P(tp, fam="server"),
          1 if q else 3)
    # --- the asan slice: memory safety of the borrowed local address ------------------------------------
    if q:
        A("btcp (asan): canonical lists of 2, local address v4:0", P(algs=6, dns=3, laddrs=2, ctos=1, dnstos=2, minlen=2, maxlen=2, canon=1),
          1, "asan")
    else:
        A("btcp (asan): canonical lists <=2, local address v4:0 / v6:fixed",
          P(algs=7, dns=3, laddrs=18, ctos=1, dnstos=2, maxlen=2, canon=1), 1, "asan")
        A("btcp (asan): canonical lists of 3, sequential, late resolver, local address v4:0",
          P(algs=2, dns=2, laddrs=2, ctos=1, dnstos=2, minlen=3, maxlen=3, canon=1), 1, "asan")
        A("tls (asan): canonical lists of 2, local address v4:0", P("tls", algs=6, dns=3, laddrs=2, ctos=1, dnstos=2, minlen=2, maxlen=2,
                                                                   canon=1), 1, "asan")
    return c


def asan_env(symbolize):
    env = harnesses.asan_env()
    if not symbolize:
        # symbolising every crashing child costs ~0.3 s each; the signature is refined from one replay
        env["ASAN_OPTIONS"] = env["ASAN_OPTIONS"].replace("symbolize=1", "symbolize=0")
    return env


def crash_signature(v, exe, params, variant):
    """C13/crash/<kind>/at=<first XCM frame> from one symbolised replay of the crashing execution"""
    env = asan_env(True) if variant == "asan" else dict(os.environ)
    try:
        r = subprocess.run([exe, "--replay-choices", v["choices"] or "", "--params", params], capture_output=True, env=env,
                           timeout=300)
        err = (r.stderr or b"").decode(errors="replace")
    except subprocess.TimeoutExpired:
        err = v.get("stderr", "")
    kind = frame = None
    m = re.search(r"ERROR: AddressSanitizer: ([a-z0-9-]+)", err)
    if m:
        kind = m.group(1)
        for fm in re.finditer(r"#\d+ 0x[0-9a-f]+ in (\S+) (\S+)", err):
            fn, where = fm.group(1), fm.group(2)
            if ("libxcm" in where or "/common/" in where) and "/verif/" not in where and not fn.startswith("__"):
                frame = fn
                break
    if not kind:
        m = re.search(r"runtime error: ([^\n]{0,60})", err)
        if m:
            kind = "ubsan:" + re.sub(r"[^a-z]+", "-", m.group(1).lower())[:30]
    if not kind:
        m = re.search(r"TID \d+: (\w+) \[[^\]]*\]: Assertion \"(.{0,60}?)\" failed", err)
        if m:
            frame = m.group(1)
            kind = "assert:" + re.sub(r"[^A-Za-z0-9_<>=!]+", "_", m.group(2))[:40]
    if not kind:
        m = re.search(r"crash/([A-Za-z()]+)/", v["signature"])
        kind = m.group(1) if m else "died"
    v["stderr"] = err[:6000]
    return "C13/crash/%s%s" % (kind, "/at=" + frame if frame else "")


def merge(chk, res, label, variant):
    if res.get("broken"):
        chk.broke("%s: %s" % (label, res["broken"]))
    if res.get("deadline_hit"):
        chk.deadline_hit = True
    for v in res.get("violations", []):
        sig = v["signature"]
        if sig.startswith("internal/"):
            chk.broke("%s: harness-internal failure %s: %s" % (label, sig, v["text"]))
            continue
        if v.get("crash") and "SIGALRM" in sig and not v.get("reproduced"):
            # the explorer's watchdog is wall-clock (60 s per execution): on an overloaded machine a
            # healthy execution can hit it once; a real hang reproduces on both replays and is reported
            chk.info("C13/info/watchdog-not-reproducible", "%s: one execution was killed by the 60 s wall-clock watchdog and "
                     "ran to completion on both replays (machine load)" % label)
            continue
        if v.get("crash"):
            sig = crash_signature(v, res["exe"], res.get("params"), variant)
        if not sig.startswith(PREFIX):
            continue
        if not v.get("reproduced"):
            chk.broke("%s: violation %s did not reproduce deterministically on replay" % (label, sig))
            continue
        pre = ""
        if variant == "asan":
            pre = "ASAN_OPTIONS='%s' " % asan_env(True)["ASAN_OPTIONS"]
        replay = dict(harness=os.path.basename(res["exe"]), params=res.get("params"), build=variant, choices=v["choices"],
                      non_default_choices=v["non_default"], deviations=v["deviations"],
                      observations=v.get("log", "").splitlines()[-120:], stderr=v.get("stderr", "")[:3000],
                      replay_cmd="%s%s --replay-choices %s --params '%s'" % (pre, res["exe"], v["choices"] or "''",
                                                                            res.get("params")))
        chk.finding(sig, v["text"] + "  [slice: %s; %d deviation(s); %d execution(s) of this slice show it]" %
                    (res.get("params"), v["deviations"], v.get("count", 1)), replay)
    for i in res.get("infos", []):
        chk.info(i["key"], i["text"])


def prepare_replay(art):
    harnesses.build_explorer_harness(HARNESS, variant=art.get("build", "plain"))


def run(chk, tier, jobs, deadline):
    chk.assumptions += ASSUME
    q = tier == "quick"
    dl = deadline or (420 if q else 2700)
    t_end = time.time() + dl
    msgfamily.ensure_pki()
    exes = {}
    tot = dict(executions=0, states=0, transitions=0, outcomes=0, points=0, tables=0)
    counters = [0] * 24
    per_cfg, samples = [], []
    completed_all = True
    cfgs = configs(tier)
    for label, params, bound, variant in cfgs:
        census = 1
        if msgfamily.needs_tls(params):
            params += "," + msgfamily.certs()
        if variant not in exes:
            exes[variant] = harnesses.build_explorer_harness(HARNESS, variant=variant)
        exe = exes[variant]
        left = t_end - time.time()
        if left < 5:
            chk.deadline_hit = True
            completed_all = False
            per_cfg.append(dict(slice=label, params=params, bound=bound, build=variant, skipped="tier deadline reached"))
            continue
        env = asan_env(False) if variant == "asan" else None
        tables = None
        if census:
            # plain build: the table space does not depend on the build variant
            cexe = exes.get("plain") or harnesses.build_explorer_harness(HARNESS, variant="plain")
            exes["plain"] = cexe
            cr = harnesses.explore(cexe, params + ",count=1", 0, left, jobs=jobs)
            if cr.get("broken"):
                chk.broke("%s: table census: %s" % (label, cr["broken"]))
            tables = cr.get("executions", 0)
            left = t_end - time.time()
        res = harnesses.explore(exe, params, bound, max(left, 1), jobs=jobs, env=env)
        merge(chk, res, label, variant)
        lvl = res.get("executions_per_level") or []
        if tables is None:
            tables = 0
        tot["tables"] += tables
        tot["executions"] += res.get("executions", 0)
        tot["states"] += res.get("states", 0)
        tot["transitions"] += res.get("transitions", 0)
        tot["outcomes"] += res.get("distinct_outcomes", 0)
        tot["points"] += res.get("points_total", 0)
        for i, cv in enumerate(res.get("counters", [])[:24]):
            counters[i] += cv
        if res.get("completed_bound", -1) < bound:
            completed_all = False
        per_cfg.append(dict(slice=label, params=params, bound=bound, build=variant, world_tables=tables,
                            completed_bound=res.get("completed_bound"), executions=res.get("executions"),
                            executions_per_level=lvl, states=res.get("states"), transitions=res.get("transitions"),
                            distinct_outcomes=res.get("distinct_outcomes"), max_choice_points=res.get("max_points"),
                            crashes=res.get("crashes"), wall_s=round(res.get("elapsed", 0), 2)))
        for s in res.get("samples", [])[:2]:
            if len(samples) < 12:
                samples.append(dict(slice=label, execution=s))
    chk.add_cov(states=tot["states"], transitions=tot["transitions"], traces_validated_against_impl=tot["executions"],
                executions=tot["executions"], evaluations=tot["executions"], world_tables=tot["tables"],
                distinct_outcomes_summed=tot["outcomes"], choice_points_total=tot["points"], configurations=len(cfgs),
                per_configuration=per_cfg, samples=samples, exhaustive=completed_all and not chk.deadline_hit,
                deviation_bound="D<=1 in every slice" if q else "D<=1 in every slice (lists <=4); D<=2 all lists<=3 without and canonical lists<=3 with local address; D<=4 canonical lists<=2; D<=3 resolver failures and xcm_server")
    chk.add_cov(**{n: counters[i] for i, n in COUNTERS.items()})
