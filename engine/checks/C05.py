"""C05 - non-blocking sockets never put the calling thread to sleep.

The shim's sleep monitor (any poll/ppoll/select/epoll_wait with timeout != 0, any sleep, any
connect/accept/send/recv on a descriptor without O_NONBLOCK, issued while an API call on a socket in
non-blocking mode is in progress) watches (a) the complete product transport x connection phase x
operation of h_nb and (b) every execution of the h_msg explorations."""
import os

from checks import msgfamily

LEVEL = "model_checking"
PREFIXES = ("C05/",)

ASSUME = [
    "the product {tcp,tls,btcp,btls,utls,ux,uxf} x {resolving, connecting, handshaking, ready, back-pressured, closed by peer, "
    "failed, server with/without a pending connection, all host/local-address naming variants against late/failing/silent "
    "resolvers} x {every API function, every attribute get, a set of attribute sets, close} is visited completely",
    "a call counts as sleeping if it issues a primitive that MAY sleep, whatever the outcome of that primitive",
    "the resolver is a stub of the c-ares entry points (answers now / late / fails late / silent)",
]

TPS = ("tcp", "tls", "btcp", "btls", "utls", "ux", "uxf")
PHASES = ("resolving", "connecting", "handshaking", "ready", "backpressure", "closed", "failed", "server",
          "connect-variants")


def run(chk, tier, jobs, deadline):
    chk.assumptions += ASSUME
    q = tier == "quick"
    cells = []
    for tp in TPS:
        for ph in PHASES:
            if tp in ("ux", "uxf") and ph in ("resolving", "connecting", "handshaking", "connect-variants"):
                continue
            cells.append(("tp=%s,phase=%s" % (tp, ph), 0 if q else 1))
    # credential files rewritten by another process while a non-blocking connect/accept loads them: every fopen()
    # inside an API call is a choice point (free of time: the files' time stamps change at that moment)
    for tp in ("tls", "btls", "utls"):
        cells.append(("tp=%s,phase=creds-change,menu=0" % tp, 1 if q else 2))
    dl = deadline or (420 if q else 1500)
    tot1, cnt1 = msgfamily.run_configs(chk, "h_nb", cells, PREFIXES, jobs, dl * 0.5,
                                       counter_names={1: "api_calls_monitored_h_nb"})
    cov1 = dict(chk.coverage)
    chk.coverage = {}
    # the same monitor over explored traffic
    M = "cnt=0,prop=C05,probe=1"
    cfgs = []
    for tp, d in (("tcp", 2), ("tls", 1), ("btcp", 2), ("btls", 1), ("ux", 2), ("uxf", 2), ("utls", 2), ("utlstls", 1)):
        bs = tp in ("btcp", "btls")
        cfgs.append(("tp=%s,script=%s,style=spec,%s" % (tp, "S3" if bs else "T2", M), d if q else d + 1))
        cfgs.append(("tp=%s,script=%s,style=strict,%s" % (tp, "S1" if bs else "T4", M), d if q else d + 1))
    msgfamily.run_configs(chk, "h_msg", cfgs, PREFIXES, jobs, dl * 0.5)
    cov2 = chk.coverage
    merged = dict(cov2)
    for k in ("states", "transitions", "traces_validated_against_impl", "executions", "evaluations",
              "choice_points_total", "configurations", "distinct_outcomes_summed"):
        merged[k] = cov1.get(k, 0) + cov2.get(k, 0)
    merged["per_configuration"] = cov1.get("per_configuration", []) + cov2.get("per_configuration", [])
    merged["samples"] = (cov1.get("samples", [])[:6] + cov2.get("samples", [])[:6])
    merged["exhaustive"] = bool(cov1.get("exhaustive")) and bool(cov2.get("exhaustive"))
    # (c) the control interface is serviced from inside the application's own (non-blocking) calls: the same monitor
    # over control sessions (requests whose replies are read late or never, concurrent sessions), h_ctl with mon=1
    import shutil
    import harnesses
    import build
    from checks import C14 as c14
    run_root = os.path.join(build.BUILD, "run", "c05ctl-%d" % os.getpid())
    os.makedirs(run_root, exist_ok=True)
    try:
        exe = harnesses.build_explorer_harness("h_ctl", variant="plain", **c14.BUILD_KW)
        env = dict(os.environ, C14_RUN=run_root)
        ctl_cfgs = [("tp=tcp,target=a,c0=r:ga,rel=0,mon=1", 1), ("tp=tcp,target=srv,c0=x:ag,c1=r:t,rel=0,mon=1", 1),
                    ("tp=ux,target=b,big=1,c0=r:g,c1=r:k,c2=r:x,rel=99,mon=1", 1), ("tp=tcp,target=a,c0=r:g,c1=r:m,c2=x:g,rel=3,mon=1", 0)]
        for params, bound in ctl_cfgs:
            res = harnesses.explore(exe, params, bound if q else bound + 1, 120 if q else 400, jobs=jobs, env=env)
            harnesses.merge_into(chk, res, PREFIXES, params)
            for k in ("states", "transitions", "executions"):
                merged[k] += res.get(k, 0)
            merged["traces_validated_against_impl"] += res.get("executions", 0)
            merged["evaluations"] += res.get("executions", 0)
            merged["configurations"] += 1
            merged["per_configuration"].append(dict(params=params, bound=bound, build="plain", harness="h_ctl",
                                                    executions=res.get("executions"), completed_bound=res.get("completed_bound"),
                                                    explored_bound=bound if q else bound + 1))
            if res.get("completed_bound", -1) < (bound if q else bound + 1):
                merged["exhaustive"] = False
    finally:
        shutil.rmtree(run_root, ignore_errors=True)
    merged["cells_phase_x_transport"] = len(cells)
    merged["api_calls_monitored_h_nb"] = cov1.get("api_calls_monitored_h_nb", 0)
    chk.coverage = merged
