"""C12 - address strings: make and parse are exact inverses with honest bounds.

Deciding step: exhaustive in-process enumeration (harness/h_addr.c) of a bounded input space of
xcm_addr_make_* / xcm_addr_parse_* / xcm_addr_is_valid / xcm_addr_parse_proto and the
xcm_addr_compat.c wrappers, every library call compared with an independent three-valued reference
codec (must-accept / must-reject / either) written from xcm.h's "Address Syntax".  The enumeration is
cut into numbered batches (`h_addr --list`), one process per batch, dealt to `jobs` workers.

Two builds of the same harness source:
  asan   clang ASan+UBSan subset: every parser input is an exact heap block and every output buffer ends
         at the end of a heap block, so the first byte read or written outside is trapped (a sanitizer
         abort is a finding naming the exact call; the batch is resumed behind it)
  plain  gcc: functional oracle + canaries in front of AND behind the output buffers

quick     asan : make-bnd, make-ux, ports, misc, parse capacities, short strings <= 5 (tcp) / <= 4 (others)
          plain: make-all (all 65536 ports x all capacities), short strings <= 6 / <= 5
thorough  asan : every family incl. make-all, short strings <= 6 / <= 5
          plain: short strings <= 7 / <= 6
Families: make-all = 13 make functions x {IPv4, IPv6, DNS name} x all 65536 ports x all capacities 0..len+2
(each string parsed back through the 19 parser entry points); make-bnd = boundary ports x all capacities x
29 hosts; make-ux = ux/uxf names 0,1,2,106..109 x all capacities; ports = port field over [-2,70000] x 6
transports; misc = structured families around every limit; short = all strings over a 15-letter alphabet.
"""
import hashlib
import json
import os
import re
import resource
import shlex
import subprocess
import time
from concurrent.futures import ThreadPoolExecutor, as_completed

import build
import common
import harnesses

LEVEL = "model_checking"

LOG_DIR = os.path.join(build.BUILD, "logs", "C12")
MAX_RESUMES = 40                # sanitizer aborts / hangs tolerated per batch before it is given up

def _is_short(desc):
    return desc.startswith("short ")


def _is_make_all(desc):
    return desc.startswith("make-all ")


# tier -> [(variant, (ltcp, lother), which batches)]; the LAST plain entry defines the short-string family
# whose members are counted as states (the sanitizer pass repeats its shorter part)
PASSES = {
    "quick": [("asan", (5, 4), lambda d: not _is_make_all(d)),
              ("plain", (6, 5), lambda d: _is_make_all(d) or _is_short(d))],
    "thorough": [("asan", (6, 5), lambda d: True),
                 ("plain", (7, 6), _is_short)],
}

ASSUME = [
    "an address string is a single token: xcm.h's Address Syntax gives every form as an unbroken token and none "
    "contains blanks or line breaks, so the six ASCII white-space characters (space, \\t, \\n, \\v, \\f, \\r) anywhere "
    "in the string - transport name, host, port, UX/UXF name - are must-reject for every parser entry point "
    "(typed, compat, xcm_addr_parse_proto) and for xcm_addr_is_valid/is_supported; each of the six is offered at "
    "the start, middle and end of every field and directly behind the prefix, for all eight transports",
    "the reference codec is three-valued: must-accept / must-reject / either; 'either' (no verdict on acceptance, "
    "but an accepted string must still yield the components its text denotes) covers what xcm.h's Address Syntax "
    "leaves open: leading zeros in ports and IPv4 octets, label-level DNS syntax (empty labels, hyphens at label "
    "edges, labels > 63, all-numeric names that are not a dotted quad), bytes outside letters/digits/'-'/'.' in a "
    "DNS name other than blanks, control characters, brackets and ':' (e.g. '_', '\\\\', 8-bit), the empty UX name, "
    "control characters other than white space and bytes >= 0x80 in UX/UXF names, upper-case transport names",
    "must-reject: empty/signed/blank-containing/non-decimal/>65535 port fields (incl. values that wrap an int), "
    "trailing junk, empty host, unbalanced brackets, ':' outside brackets, blanks or control characters anywhere in "
    "a host, DNS names > 253, UX/UXF names > 107 bytes, unknown transport name, missing separators",
    "IPv6 text produced by make may be any RFC 4291 text of the same 16 bytes (RFC 5952 form not demanded)",
    "reads outside the buffers are decided in the sanitizer build only (inputs are exact-size heap blocks, output "
    "buffers end at the end of a heap block); the plain build detects writes outside through canaries in front of "
    "and behind the output buffers; quick runs make-all (all ports) and the longest short strings in the plain "
    "build only, thorough runs make-all under the sanitizer as well",
    "termination: a call that consumes 5 s of the process's own CPU time without returning is a hang "
    "(ITIMER_PROF; independent of wall-clock and machine load)",
    "xcm_addr_is_valid / is_supported / the xcm_addr_compat.c parsers are checked differentially against the eight "
    "typed parsers run on the same string",
]


def _exe(variant):
    # a scratch tree (VERIF_REPO, used by the detection self-test) gets executables of its own, so that a
    # run against it can never exchange the binaries under a concurrent run against /repo
    name = "h_addr"
    if os.path.realpath(build.REPO) != "/repo":
        name += "_" + hashlib.sha256(os.path.realpath(build.REPO).encode()).hexdigest()[:8]
    return build.build_harness(name, ["harness/h_addr.c"], variant=variant, lib=True, wraps=(),
                               cares_stub=False)


def _env(variant):
    if variant == "asan":
        return harnesses.asan_env()
    return dict(os.environ)


def _lens_args(lens, dd):
    return ["--ltcp", str(lens[0]), "--lother", str(lens[1]), "--dd-ltcp", str(dd[0]), "--dd-lother", str(dd[1])]


def _list_batches(exe, variant, lens, dd):
    r = subprocess.run([exe] + _lens_args(lens, dd) + ["--list"], capture_output=True, env=_env(variant))
    if r.returncode != 0:
        raise RuntimeError("h_addr --list failed: %s" % r.stderr.decode()[-500:])
    return [json.loads(l) for l in r.stdout.decode().splitlines() if l.strip()]


def _crash_signature(crash, stderr):
    """Stable signature of a sanitizer abort / library abort / hang: error class + function under test +
    innermost frame inside the repository sources."""
    fn = crash.get("fn") or "?"
    kind = crash.get("kind")
    if kind == "hang":
        return "C12/does-not-terminate/fn=%s" % fn
    cls = None
    m = re.search(r"ERROR: AddressSanitizer: ([A-Za-z0-9_-]+)", stderr)
    if m:
        cls = m.group(1)
        if re.search(r"\bWRITE of size", stderr):
            cls += "-write"
        elif re.search(r"\bREAD of size", stderr):
            cls += "-read"
    elif "runtime error:" in stderr:
        m2 = re.search(r"runtime error: ([a-z -]+?)(?: of| for| to|\d|$)", stderr)
        cls = "ubsan-" + (common.slug(m2.group(1).strip()) if m2 else "error")
    elif kind == "abort":
        m3 = re.search(r"Assertion [`'\"]?(.{1,60}?)['\"]? failed", stderr)
        cls = "abort" + ("-assert" if m3 else "")
    else:
        cls = kind or "crash"
    frame = None
    repo = os.path.realpath(build.REPO)
    for fm in re.finditer(r"#\d+ 0x[0-9a-f]+ in (\S+) (\S+?):\d+", stderr):
        if os.path.realpath(fm.group(2)).startswith(repo + "/"):
            frame = fm.group(1)
            break
    sig = "C12/memory-unsafe/%s/fn=%s" % (cls, fn) if kind == "sanitizer" else "C12/%s/fn=%s" % (cls, fn)
    if frame:
        sig += "/at=%s" % frame
    return sig


def _run_batch(job):
    """One batch, resumed behind every crash.  Returns dict(lines=[json...], crashes=[...], complete=bool,
    error=str|None, cpu=float)."""
    exe, variant, args, bid = job["exe"], job["variant"], job["args"], job["id"]
    env = _env(variant)
    lines, crashes = [], []
    frm = 0
    t0 = time.time()
    for attempt in range(MAX_RESUMES + 1):
        cmd = [exe] + args + ["--batch", str(bid)] + (["--from", str(frm)] if frm else [])
        r = subprocess.run(cmd, capture_output=True, env=env)
        out = r.stdout.decode("utf-8", "replace")
        err = r.stderr.decode("utf-8", "replace")
        got = []
        for l in out.splitlines():
            l = l.strip()
            if not l:
                continue
            try:
                got.append(json.loads(l))
            except ValueError:
                return dict(lines=lines, crashes=crashes, complete=False, cpu=time.time() - t0,
                            error="batch %d (%s): unparsable output line %r" % (bid, variant, l[:200]))
        lines += got
        if any(g.get("t") == "done" for g in got):
            return dict(lines=lines, crashes=crashes, complete=True, error=None, cpu=time.time() - t0)
        cr = [g for g in got if g.get("t") == "crash"]
        if not cr:
            return dict(lines=lines, crashes=crashes, complete=False, cpu=time.time() - t0,
                        error="batch %d (%s) ended with status %d without a result: %s" %
                              (bid, variant, r.returncode, err[-600:]))
        c = cr[0]
        c["stderr"] = err[-6000:]
        c["variant"] = variant
        crashes.append(c)
        frm = int(c["case"]) + 1
    return dict(lines=lines, crashes=crashes, complete=False, error=None, cpu=time.time() - t0, gave_up=True)


def _replay_dict(exe, variant, one, extra=None):
    pre = ""
    if variant == "asan":
        e = harnesses.asan_env()
        pre = "ASAN_OPTIONS=%s UBSAN_OPTIONS=%s " % (shlex.quote(e["ASAN_OPTIONS"]), shlex.quote(e["UBSAN_OPTIONS"]))
    d = dict(harness=os.path.basename(exe), build=variant, one=one,
             replay_cmd="%s%s --one %s" % (pre, exe, one),
             replay_note="re-runs this one case verbosely against the library compiled from the working tree; "
                         "exit 1 = violates the oracle (or sanitizer abort), exit 0 = conforms")
    if extra:
        d.update(extra)
    return d


def prepare_replay(art):
    """run_check.py --replay: rebuild the harness from the current tree first."""
    _exe(art.get("build", "plain"))


def _confirm(exe, variant, one, sig):
    """Replay one case on its own; the violation must show again with the same signature."""
    r = subprocess.run([exe, "--one"] + one.split(" "), capture_output=True, env=_env(variant))
    out = r.stdout.decode("utf-8", "replace")
    return r.returncode != 0 and ("VIOLATION " + sig) in out, out


def run(chk, tier, jobs, deadline):
    chk.assumptions += ASSUME
    os.makedirs(LOG_DIR, exist_ok=True)
    passes = PASSES["quick" if tier == "quick" else "thorough"]
    lens_asan, lens_plain = passes[0][1], passes[1][1]
    dl = deadline or (900 if tier == "quick" else 2700)
    t_end = chk.t0 + dl

    exes = {"asan": _exe("asan"), "plain": _exe("plain")}
    ru0 = resource.getrusage(resource.RUSAGE_CHILDREN)
    work = []
    nb = {}
    # states of the sanitizer pass's short-string batches are counted by the plain pass (a superset)
    for variant, lens, want in passes:
        bl = _list_batches(exes[variant], variant, lens, lens_plain)
        nb[variant] = 0
        for b in bl:
            if not want(b["desc"]):
                continue
            nb[variant] += 1
            work.append(dict(exe=exes[variant], variant=variant, id=b["id"], desc=b["desc"],
                             short=_is_short(b["desc"]), args=_lens_args(lens, lens_plain),
                             weight=b["weight"] * (4.5 if variant == "asan" else 1.0)))
    work.sort(key=lambda j: (-j["weight"], j["variant"], j["id"]))

    tot = dict(states=0, calls=0, validated=0, either=0, nontrivial=0, dup_calls=0, strings=0, make_tuples=0,
               roundtrips=0, make_ok=0, make_fail=0, cases=0)
    cells = dict(reject_rejected=0, reject_accepted=0, accept_rejected=0, accept_accepted=0,
                 either_rejected=0, either_accepted=0)
    per_pass = {v: dict(batches_completed=0, batches=nb[v], calls=0, strings=0, make_tuples=0) for v in nb}
    sig_count = {}
    sig_first = {}              # sig -> (order key, finding line, variant)
    samples = {}
    infos = {}
    crashes = []
    incomplete = []
    skipped = 0

    def fold(job, res):
        if res.get("error"):
            chk.broke(res["error"])
        if not res["complete"]:
            incomplete.append("%s batch %d (%s)" % (job["variant"], job["id"], job["desc"]))
        else:
            per_pass[job["variant"]]["batches_completed"] += 1
        for c in res["crashes"]:
            c["desc"] = job["desc"]
            crashes.append(c)
        for g in res["lines"]:
            t = g.get("t")
            if t == "stats":
                # the sanitizer pass repeats the shorter part of the short-string family: calls are real
                # executions, but the distinct cases are those of the plain pass
                rep = job["variant"] == "asan" and job["short"]
                for k in tot:
                    if rep and k in ("states", "nontrivial", "strings", "cases"):
                        continue
                    tot[k] += g.get(k, 0)
                if rep:
                    tot["dup_calls"] += g.get("states", 0)
                for k in cells:
                    cells[k] += g["cells"].get(k, 0)
                pp = per_pass[job["variant"]]
                pp["calls"] += g.get("calls", 0)
                pp["strings"] += g.get("strings", 0)
                pp["make_tuples"] += g.get("make_tuples", 0)
                for s, n in g.get("sigs", {}).items():
                    sig_count[s] = sig_count.get(s, 0) + n
            elif t == "finding":
                key = (0 if job["variant"] == "plain" else 1, len(g.get("one", "")), g.get("one", ""))
                cur = sig_first.get(g["sig"])
                if cur is None or key < cur[0]:
                    sig_first[g["sig"]] = (key, g, job["variant"])
            elif t == "sample":
                # the sample kept per cell does not depend on which batch happens to finish first
                k = (job["variant"], job["id"])
                txt = "%s  model: %s  library: %s" % (g["call"], g["model"], g["impl"])
                if g["cell"] not in samples or k < samples[g["cell"]][0]:
                    samples[g["cell"]] = (k, txt)
            elif t == "info":
                k = (job["variant"], job["id"])
                if g["key"] not in infos or k < infos[g["key"]][0]:
                    infos[g["key"]] = (k, g["text"])

    with ThreadPoolExecutor(max_workers=max(1, jobs)) as ex:
        futs = {}
        it = iter(work)
        pending = set()

        def submit_next():
            nonlocal skipped
            for job in it:
                if time.time() > t_end:
                    skipped += 1
                    continue
                f = ex.submit(_run_batch, job)
                futs[f] = job
                pending.add(f)
                return True
            return False

        for _ in range(max(1, jobs) * 2):
            if not submit_next():
                break
        while pending:
            done = next(as_completed(pending))
            pending.discard(done)
            job = futs.pop(done)
            try:
                fold(job, done.result())
            except Exception as e:  # noqa: BLE001
                chk.broke("batch %d (%s): %r" % (job["id"], job["variant"], e))
            submit_next()

    if skipped:
        chk.deadline_hit = True

    # ---- findings ---------------------------------------------------------------------------
    for sig in sorted(sig_count):
        first = sig_first.get(sig)
        if first is None:
            chk.broke("signature %s counted but no finding line was captured" % sig)
            continue
        _, g, variant = first
        ok, out = _confirm(exes[variant], variant, g["one"], sig)
        if not ok:
            chk.broke("finding %s (%s) did not reproduce on replay: %s" % (sig, g["one"], out[-400:]))
            continue
        trace = [l for l in out.splitlines() if l.strip()][-40:]
        chk.finding(sig, g["text"] + "  [%d occurrence(s) in the enumerated space]" % sig_count[sig],
                    _replay_dict(exes[variant], variant, g["one"],
                                 dict(occurrences=sig_count[sig], first_batch=g.get("batch"), trace=trace)))
    seen_crash = {}
    for c in crashes:
        sig = _crash_signature(c, c.get("stderr", ""))
        seen_crash.setdefault(sig, []).append(c)
    for sig in sorted(seen_crash):
        cs = sorted(seen_crash[sig], key=lambda c: (len(c.get("one", "")), c.get("one", "")))
        c = cs[0]
        r = subprocess.run([exes[c["variant"]], "--one"] + c.get("one", "").split(" "), capture_output=True,
                           env=_env(c["variant"]))
        if r.returncode == 0:
            chk.broke("crash %s (%s) did not reproduce on replay" % (sig, c.get("one")))
            continue
        text = "%s while %s was running (%s); case: h_addr --one %s  [%d occurrence(s)]\n%s" % (
            c.get("kind"), c.get("fn"), c.get("desc"), c.get("one"), len(cs),
            "\n".join(c.get("stderr", "").splitlines()[:14]))
        chk.finding(sig, text, _replay_dict(exes[c["variant"]], c["variant"], c.get("one", ""),
                                             dict(occurrences=len(cs), stderr=c.get("stderr", "")[:3000])))
    for k in sorted(infos):
        chk.info(k, infos[k][1])
    if incomplete:
        chk.deadline_hit = chk.deadline_hit or not chk.broken
        chk.info("incomplete-batches", "; ".join(incomplete[:8]))

    # ---- evidence ---------------------------------------------------------------------------
    order = ["make/does-not-fit/success", "parse/must-reject/accepted", "make/fits/success",
             "make/does-not-fit/failure", "parse/must-accept/accepted", "parse/must-reject/rejected",
             "parse/either/accepted", "parse/either/rejected", "is_valid/true", "is_valid/false",
             "parse_proto/must-accept/accepted", "compat/must-accept/accepted"]
    smp = [("%s: %s" % (k, samples[k][1])) for k in order if k in samples]
    smp += [("%s: %s" % (k, samples[k][1])) for k in sorted(samples) if k not in order]
    ru1 = resource.getrusage(resource.RUSAGE_CHILDREN)
    cpu = (ru1.ru_utime + ru1.ru_stime) - (ru0.ru_utime + ru0.ru_stime)
    chk.add_cov(
        cpu_seconds_of_harness_processes=round(cpu, 1),
        states=tot["states"], transitions=tot["calls"], traces_validated_against_impl=tot["cases"],
        executions=tot["calls"],
        library_calls=tot["calls"], calls_with_definite_model_verdict=tot["validated"],
        calls_model_either=tot["either"], repeated_calls_not_counted_as_states=tot["dup_calls"],
        nontrivial_states=tot["nontrivial"],
        parser_input_strings=tot["strings"], make_tuples_swept_over_all_capacities=tot["make_tuples"],
        make_calls_success=tot["make_ok"], make_calls_failure=tot["make_fail"],
        roundtrip_strings=tot["roundtrips"],
        typed_parse_cells_model_x_library=cells,
        batches=len(work), batches_completed=sum(p["batches_completed"] for p in per_pass.values()),
        batches_skipped_by_deadline=skipped, per_pass=per_pass,
        bounds=dict(short_string_len_tcp_asan=lens_asan[0], short_string_len_other_asan=lens_asan[1],
                    short_string_len_tcp_plain=lens_plain[0], short_string_len_other_plain=lens_plain[1],
                    alphabet="tcp:[]*.-+019a<space>", ports="all 65536 x all capacities 0..len+2",
                    port_field_integers="-2..70000 x 6 transports"),
        distinct_signatures=len(sig_count) + len(seen_crash), sanitizer_aborts=len(crashes),
        samples=smp[:12],
        exhaustive=(not skipped and not incomplete and not chk.broken),
        definitions="states = distinct (function, arguments) pairs evaluated; transitions = library calls made, each "
                    "checked by the oracle; traces_validated_against_impl = top-level cases (one string through all "
                    "19 parser entry points, or one make tuple through every capacity and back through the parsers)")
    with open(os.path.join(LOG_DIR, "last-%s.json" % tier), "w") as f:
        json.dump(dict(signatures=sig_count, infos={k: v[1] for k, v in infos.items()}, incomplete=incomplete,
                       crashes=[{k: v for k, v in c.items() if k != "stderr"} for c in crashes]), f, indent=1)
