"""C04 - the event-loop contract is live: no lost wake-ups, blocking calls return.

Tasks follow the documented protocol (await, wait for xcm_fd, act); a task is enabled only while the
real poll(xcm_fd) says readable; quiescence (no task enabled, no environment event pending, hence no
timer armed) with an unfinished script is the lost-wake-up / blocking-call-never-returns verdict."""
from checks import msgfamily

LEVEL = "model_checking"
PREFIXES = ("C04/",)

ASSUME = [
    "liveness is decided on finite goals: every script can complete, so any quiescent state with an unfinished "
    "task is a deadlock; a run exceeding the step horizon (3000 scheduler steps, >60x the default run) is a livelock",
    "virtual time: an armed timer or a pending connect/DNS answer/write stall is always an enabled environment event, "
    "so waiting for one is never a deadlock",
    "deviations offered below the library: short reads/writes, EAGAIN, persistent write stall, trickle, connect latency, "
    "accept EAGAIN; scheduling: every interleaving of the two endpoints' API calls with <= D deviations in total",
    "a connection attempt may legitimately end in ETIMEDOUT when the environment withholds the establishment for "
    ">= tcp.connect_timeout of virtual time; failures of the peer that follow from it are not violations",
]


def configs(tier):
    q = tier == "quick"
    c = []
    M = "cnt=0,prop=C04,probe=0"
    for tp, dq, dt in (("tcp", 3, 4), ("btcp", 3, 4), ("ux", 3, 5), ("uxf", 3, 4), ("utls", 3, 4),
                       ("tls", 2, 3), ("utlstls", 2, 3), ("btls", 2, 3)):
        bs = tp in ("btcp", "btls")
        scripts = (("S1", "strict"), ("S3", "strict"), ("S2", "spec")) if bs else \
            (("T1s", "strict"), ("T2", "loop"), ("T4", "strict"), ("T6", "strict"), ("T2", "strict"))
        for script, style in scripts:
            d = dq if q else dt
            if script in ("T2", "S2") and tp not in ("ux", "uxf", "utls"):
                d -= 1
            c.append(("tp=%s,script=%s,style=%s,%s" % (tp, script, style, M), d))
        # blocking forms against blocking and event-loop peers
        s1 = "S3" if bs else "T6"
        s2 = "S1" if bs else "T1s"
        dd = (dq if q else dt)
        c.append(("tp=%s,script=%s,ma=b,mb=b,%s" % (tp, s1, M), dd))
        c.append(("tp=%s,script=%s,ma=b,mb=nb,style=strict,%s" % (tp, s2, M), dd - 1))
        c.append(("tp=%s,script=%s,ma=nb,mb=b,style=strict,%s" % (tp, s2, M), dd - 1))
    # flow-control back-pressure (DESIGN 7a): a write stall ends only once the peer has READ what was written, so with
    # both ends stalled each needs the other to keep its read interest alive while it waits to write.  Loop style only
    # (both directions served from one loop), stall (+EAGAIN in thorough) deviations only, so the frontier stays small.
    for tp in ("tcp", "tls", "utlstls"):
        c.append(("tp=%s,script=T2,style=loop,bp=1,menu=0x%x,%s" % (tp, 0x10 if q else 0x18, M), 3 if q else 4))
    return c


def run(chk, tier, jobs, deadline):
    chk.assumptions += ASSUME
    msgfamily.run_configs(chk, "h_msg", configs(tier), PREFIXES, jobs,
                          deadline or (420 if tier == "quick" else 1500))
