"""C08 - no resource leaks, stray closes or aborts on any lifecycle path.

Harness h_life: for every transport a list of lifecycle scenarios (server create/close; connect + accept +
traffic + close in three close orders; refused connect; address in use; invalid attributes at creation and
at accept; unreadable credentials; non-blocking connect abandoned while resolving / connecting / handshaking;
peer drops; 101 sockets alive at once; control interface on / not a directory / unwritable / with an attached
client; fork at every API boundary with xcm_cleanup of every socket in the child).  The explorer enumerates
every resource-creating system call made inside an XCM API call x every errno the shim offers for it
(bound 1 = every single fault, bound 2 = every pair).  Oracle and execution layout: see h_life.c."""
import os
import re
import sys
import time
from concurrent.futures import ThreadPoolExecutor

sys.path.insert(0, os.path.dirname(os.path.dirname(os.path.abspath(__file__))))
import build  # noqa: E402
import harnesses  # noqa: E402
from checks import msgfamily  # noqa: E402

LEVEL = "fault_enumeration"
PREFIXES = ("C08/", "crash/")
EXTRA_WRAPS = ["mc_choose", "abort", "__log_event", "shutdown", "SSL_CTX_new", "SSL_CTX_free",
               "malloc", "calloc", "realloc", "free"]

TPS = ("ux", "uxf", "tcp", "btcp", "tls", "btls", "utls")
TCPISH = ("tcp", "btcp", "tls", "btls", "utls")
TLSISH = ("tls", "btls", "utls")

ASSUME = [
    "faults are injected at the system calls the library issues inside an XCM API call: socket, accept4, epoll_create1, "
    "eventfd, timerfd_create, connect, bind, listen, fopen of credential files, setsockopt on creation paths; errno sets as "
    "in envshim.c (EMFILE, ENFILE, ENOMEM, ENOBUFS, EACCES, EADDRINUSE, EADDRNOTAVAIL, ECONNABORTED, ENETUNREACH, ...); "
    "malloc failure is not injected (the library aborts on it by design, ut_mem_exhausted)",
    "TCP is emulated over AF_UNIX stream sockets (envshim); epoll, eventfd, AF_UNIX sockets, the file system and fork are "
    "the real kernel's",
    "heap steady state: bytes in use (mallinfo2, tcache off, one arena) after a fault-free warm-up repetition vs after the "
    "measured repetition; a difference is reported only if re-injecting the same faults twice more grows the heap both "
    "times (a one-off allocation cannot be told from a process-wide cache and is accepted)",
    "epoll_ctl on a foreign descriptor is observed through its effect only (the owner's descriptor must still wake after "
    "fork + xcm_cleanup in the child); close() on a descriptor the library did not create is observed directly",
    "a creation call that failed because of an injected fault is retried once; sockets are non-blocking and driven by "
    "xcm_finish loops (blocking creation paths: scenarios refused-b, conn-b); the control interface is on only in the "
    "ctl*/fork* scenarios",
    "thorough tier: pairs of faults for the scenarios listed in PAIRS (PAIRS_LOWER for btcp, btls, uxf), single faults for "
    "the remaining variants, and every single fault once more in the ASan/UBSan build with LeakSanitizer queried at the end "
    "of each execution (unreachable blocks); in the 101-socket scenarios faults are offered from the 99th socket on",
]


# thorough tier: every PAIR of faults for the scenarios that between them contain every creation ladder, every close
# order's first step, the control interface and a fork; every single fault for the remaining variants
PAIRS = {"sc=server", "sc=conn-cps", "sc=conn-spc", "sc=refused", "sc=refused-b", "sc=inuse", "sc=badattr-connect",
         "sc=accept-badattr", "sc=abandon-resolving", "sc=abandon-connecting", "sc=abandon-handshaking", "sc=conn-local",
         "sc=conn-dns", "sc=dns-fail", "sc=badcert", "sc=conn-b", "sc=pool101", "sc=ctlclient,ctl=on", "sc=conn-cps,ctl=on",
         "sc=conn-cps,ctl=unwritable", "sc=conn-cps,ctl=on,forkat=4", "sc=server,ctl=on,forkat=1"}


# btcp/btls are the lower layers of tcp/tls and uxf shares ux's code: pairs for the layer-specific scenarios only
PAIRS_LOWER = {"sc=server", "sc=conn-cps", "sc=refused", "sc=inuse", "sc=accept-badattr", "sc=badcert", "sc=conn-b",
               "sc=conn-cps,ctl=on,forkat=4", "sc=server,ctl=on,forkat=1"}


def pairs_for(tp):
    return PAIRS_LOWER if tp in ("btcp", "btls", "uxf") else PAIRS


def scenarios(tp, tier):
    """[(params-without-tp, label)] for one transport."""
    sc = ["server", "conn-cps", "conn-spc", "conn-pcs", "conn-idle", "refused", "refused-b", "inuse", "badattr-server",
          "badattr-connect", "accept-badattr", "drop-accepted", "close-pending", "two", "pool101"]
    out = ["sc=%s" % s for s in sc]
    if tp in TCPISH:
        out += ["sc=abandon-resolving", "sc=abandon-connecting", "sc=abandon-handshaking", "sc=conn-dns", "sc=dns-fail"]
    if tp in TCPISH and tp != "utls":
        out += ["sc=conn-local"]
    if tp in ("ux", "uxf", "tcp", "btcp"):
        out += ["sc=conn-b"]                 # blocking sockets (single-threaded driver: no TLS handshake possible,
                                             # and utls falls back to TLS when the UX connect is refused)
    if tp in TLSISH:
        out += ["sc=badcert"]
    if tier != "quick":
        out += ["sc=pool101conn"]
    out += ["sc=server,ctl=on", "sc=conn-cps,ctl=on", "sc=conn-cps,ctl=notdir", "sc=conn-cps,ctl=unwritable",
            "sc=ctlclient,ctl=on", "sc=ctlbad,ctl=on"]
    out += ["sc=conn-cps,ctl=on,forkat=%d" % k for k in range(1, 7)]
    out += ["sc=server,ctl=on,forkat=1", "sc=ctlfork,ctl=on,forkat=1"]
    # process-local resources of the process that only cleans up: hand-over in both directions, 1 vs 3 connections
    out += ["sc=handover,ctl=on", "sc=forkn,ctl=on"]
    if tp in TCPISH:
        # fork while the connection attempt is still in progress (timers armed, resolver busy)
        out += ["sc=abandon-resolving,ctl=on,forkat=1", "sc=abandon-connecting,ctl=on,forkat=1",
                "sc=abandon-handshaking,ctl=on,forkat=1"]
    return out


def cleanup_scratch():
    """Executions that died (crash verdicts, watchdog) cannot remove their per-pid scratch directory."""
    import shutil
    run = harnesses.RUN_DIR
    for n in os.listdir(run) if os.path.isdir(run) else []:
        if not n.startswith("life-"):
            continue
        pid = n[5:]
        try:
            comm = open("/proc/%s/comm" % pid).read().strip()
        except OSError:
            comm = ""
        if not comm.startswith("h_life"):
            shutil.rmtree(os.path.join(run, n), ignore_errors=True)


def refine_crash(v, tp):
    sig = harnesses.refine_crash_signature(v)        # crash/<SIG>/in=<api>[/kind][/at=frame]
    return "C08/" + sig + "/tp=" + tp


def run(chk, tier, jobs, deadline):
    chk.assumptions += ASSUME
    q = tier == "quick"
    msgfamily.ensure_pki()
    exe = harnesses.build_explorer_harness("h_life", variant="plain", extra_wraps=EXTRA_WRAPS)
    bound = 1 if q else 2
    # nominal cost on an idle 16-core machine: quick < 1 min, thorough about 5 min; the defaults leave room for a machine
    # that is shared with other checks (measured: 5-12 min for quick with a load average of 250)
    dl = deadline or (600 if q else 2700)
    t_end = time.time() + dl
    cfgs = []
    for tp in TPS:
        for s in scenarios(tp, tier):
            p = "tp=%s,%s" % (tp, s)
            if tp in TLSISH:
                p += "," + msgfamily.certs()
            b = bound if (q or s in pairs_for(tp)) else 1
            # the 101-socket scenarios cost ~100x a plain one per execution: pairs only where cheap
            if "pool101" in s and not q and tp in TLSISH:
                b = 1
            cfgs.append((tp, p, b))
    # many small explorations: parallelism across configurations, workers not pinned to CPUs 0..n
    par = min(jobs, 16 if q else 8)
    jobs_each = max(1, jobs // par)
    env = dict(os.environ)
    env["MCX_NO_PIN"] = "1"
    exes = {"plain": exe}
    envs = {"plain": env}
    if not q:
        # second pass, every single fault again in the sanitizer build: memory errors on the error ladders (use after free,
        # double free) become crash verdicts, and LeakSanitizer is asked at the end of every execution for blocks that
        # nothing points to any more
        exes["asan"] = harnesses.build_explorer_harness("h_life", variant="asan", extra_wraps=EXTRA_WRAPS)
        envs["asan"] = harnesses.asan_env()
        envs["asan"]["ASAN_OPTIONS"] = envs["asan"]["ASAN_OPTIONS"].replace("detect_leaks=0", "detect_leaks=1")
        envs["asan"]["MCX_NO_PIN"] = "1"
        for tp, p, b in list(cfgs):
            if "pool101" not in p:
                cfgs.append((tp, p + ",lsan=1", 1))

    def one(cfg):
        tp, p, b = cfg
        left = t_end - time.time()
        if left < 3:
            return cfg, None
        v = "asan" if "lsan=1" in p else "plain"
        return cfg, harnesses.explore(exes[v], p, b, left, jobs=jobs_each, env=envs[v])

    # long ones first so that the tail is short; if the tier deadline cuts the run, the fork/ctl variants go first
    def prio(c):
        tp, p, b = c
        if "lsan=1" in p:
            return 4
        if "pool101" in p:
            return 0
        if "forkat=" in p or "ctl=" in p:
            return 3
        return 1 if tp in TLSISH else 2
    order = sorted(cfgs, key=prio)
    with ThreadPoolExecutor(max_workers=par) as ex:
        results = list(ex.map(one, order))

    cleanup_scratch()
    tot = dict(executions=0, states=0, transitions=0, outcomes=0, points=0)
    counters = [0] * 24
    per_cfg, samples = [], []
    completed_all = True
    fault_points_max = {}
    for (tp, p, b), res in results:
        if res is None:
            chk.deadline_hit = True
            completed_all = False
            per_cfg.append(dict(params=p, bound=b, skipped="tier deadline reached"))
            continue
        if res.get("broken"):
            chk.broke("%s: %s" % (p, res["broken"]))
        if res.get("deadline_hit"):
            chk.deadline_hit = True
        for v in res.get("violations", []):
            sig = v["signature"]
            if v.get("crash"):
                sig = refine_crash(v, tp)
            if sig.startswith("internal/"):
                chk.broke("%s: harness-internal failure %s: %s" % (p, sig, v["text"]))
                continue
            if not sig.startswith("C08/"):
                continue
            if "SIGALRM" in sig:
                # the explorer's 60 s real-time watchdog: either the machine is overloaded (does not reproduce) or the
                # single-threaded driver is stuck in a blocking call (harness limitation, not a C08 clause)
                if v.get("reproduced"):
                    chk.broke("%s: execution hangs (%s): %s" % (p, sig, v["text"]))
                else:
                    chk.info("C08/watchdog-not-reproduced", "an execution exceeded the 60 s real-time watchdog once and "
                             "ran normally when replayed (overloaded machine); its subtree may be incomplete (%s)" % p)
                    completed_all = False
                continue
            if not v.get("reproduced"):
                chk.broke("%s: violation %s did not reproduce deterministically on replay" % (p, sig))
                continue
            replay = dict(harness=os.path.basename(res["exe"]), params=p, build="asan" if "lsan=1" in p else "plain",
                          choices=v["choices"],
                          non_default_choices=v["non_default"], deviations=v["deviations"],
                          observations=v.get("log", "").splitlines()[-80:], stderr=v.get("stderr", "")[:2000],
                          replay_cmd="%s%s --replay-choices %s --params '%s'" %
                                     ("ASAN_OPTIONS=%s " % envs["asan"]["ASAN_OPTIONS"] if "lsan=1" in p else "", res["exe"],
                                      v["choices"] or "''", p))
            chk.finding(sig, v["text"] + "  [scenario: %s; %d injected fault(s)]" % (p, v["deviations"]), replay)
        for i in res.get("infos", []):
            chk.info(i["key"], i["text"])
        tot["executions"] += res.get("executions", 0)
        tot["states"] += res.get("states", 0)
        tot["transitions"] += res.get("transitions", 0)
        tot["outcomes"] += res.get("distinct_outcomes", 0)
        tot["points"] += res.get("points_total", 0)
        for i, c in enumerate(res.get("counters", [])[:24]):
            counters[i] += c
        if res.get("completed_bound", -1) < b:
            completed_all = False
        fault_points_max[tp] = max(fault_points_max.get(tp, 0), res.get("max_points", 0))
        per_cfg.append(dict(params=re.sub(r",certs=[^,]*", "", p), bound=b, completed_bound=res.get("completed_bound"),
                            executions=res.get("executions"), executions_per_level=res.get("executions_per_level"),
                            fault_points_in_default_run=res.get("max_points"),
                            distinct_outcomes=res.get("distinct_outcomes"), wall_s=round(res.get("elapsed", 0), 2)))
        for s in res.get("samples", [])[1:3]:
            if len(samples) < 12 and ("sc=conn-cps" in p or "pool101" in p):
                samples.append(dict(scenario=re.sub(r",certs=[^,]*", "", p), execution=s))
    per_cfg.sort(key=lambda d: d["params"])
    chk.add_cov(states=tot["states"], transitions=tot["transitions"], traces_validated_against_impl=tot["executions"],
                executions=tot["executions"], distinct_outcomes_summed=tot["outcomes"],
                fault_points_total=tot["points"], configurations=len(cfgs), transports=len(TPS),
                scenarios_per_transport={tp: len(scenarios(tp, tier)) for tp in TPS},
                bound_completed=bound if completed_all else None, fault_bound=bound,
                configurations_at_bound_2=sum(1 for c in cfgs if c[2] == 2),
                configurations_at_bound_1=sum(1 for c in cfgs if c[2] == 1),
                max_fault_points_in_one_run=fault_points_max,
                sanitizer_pass_configurations=sum(1 for c in cfgs if "lsan=1" in c[1]), leak_sanitizer_checks=counters[6],
                api_calls_made=counters[0], faults_injected=counters[1], scenario_repetitions=counters[2],
                descriptor_table_comparisons=counters[3], heap_rechecks=counters[4], forks=counters[5],
                per_configuration=per_cfg, samples=samples, exhaustive=completed_all and not chk.deadline_hit)
