"""C14 - the control interface is passive and safe.

Deciding step: exhaustive enumeration, on the real code (h_ctl + envshim + mcx, AddressSanitizer build), of
  (i)  INPUTS: every control session of up to L items (quick L=2, thorough L=3) over the 15-item client
       alphabet (well-formed get-attr for a short / a long / the sensitive / an unknown / a list-element name,
       get-all, datagrams of 0, 1, size-1, size+1 bytes, unknown message type, two kinds of unterminated name,
       requests whose reply is never read) - as free (cost 0) choice points of the explorer - against the
       server socket, the connecting and the accepted connection of ux/uxf/tcp/tls sockets with small and large
       attribute sets (maximal UX/UXF names, by-value PEM credentials of several KB incl. an RSA key, 70-name
       tls.peer_names lists, peer certificates with 0/5/25/70 DNS SANs), released before, in the middle of and
       after the application's traffic; every session of the client library (xcmc_attr_get / _get_all) over its
       6 requests likewise;
  (ii) SCHEDULES: fixed sets of one to three concurrent sessions (beyond the two-entry session table, raw and
       xcmc clients mixed) x every interleaving of the clients' steps with the application's calls and every
       EAGAIN answer at the data path and at the control interface's own accept/recv/send with at most D
       deviations (quick D<=2, thorough D<=3), for both cadences of the control service (inside the pump /
       inside the application's next real call) and for an application that closes the socket under open
       sessions.
Oracle: see harness/h_ctl.c (head comment)."""
import datetime
import json
import os
import re
import shutil
import sys
import time

sys.path.insert(0, os.path.dirname(os.path.dirname(os.path.abspath(__file__))))
import build  # noqa: E402
import harnesses  # noqa: E402

LEVEL = "model_checking"
PREFIXES = ("C14/",)

PKI = os.path.join(build.BUILD, "run", "c14-pki")
ALPHA = "abkulgzompnNtxX"

ASSUME = [
    "control clients are separate scheduler tasks talking over real AF_UNIX SOCK_SEQPACKET sockets to the control files the "
    "library created under a per-execution XCM_CTL directory; the application is the two-endpoint workload T2 of h_msg "
    "(both directions at once, message lengths 2, 300, 300, 1, patterned payloads) over non-blocking sockets",
    "the library looks at its control descriptors every 256th data-path call; the application therefore follows each step with "
    "a macro step of 257 (or 256) xcm_finish calls that contains no scheduling point; deviations inside it are offered only "
    "at the control interface's own accept4/recv/send",
    "in-process answers are taken at the instant the library computes a reply (xcm_attr_get/xcm_attr_get_all interposed with "
    "--wrap, called only from ctl.c), so equality is exact even for counters; get-all may omit an attribute only if its value "
    "exceeds the 512-byte field, if it is tls.key, or if the 64-entry table is full (DESIGN 4.1)",
    "xcmc.c is compiled from the tree under test with one seam: its blocking recv() yields to the scheduler until the "
    "descriptor is readable (harness/h_ctl_xcmc.c)",
    "bounds: sessions of at most 3 items, at most 3 concurrent sessions, at most D deviations per configuration as listed in "
    "per_configuration; a violation needing a longer session, more sessions or more deviations is not excluded",
    "data-path deviations are limited to EAGAIN answers (short counts, stalls and faults belong to C01-C04/C06)",
]


# ---- certificates ---------------------------------------------------------------------------------------
def make_pki(force=False):
    """small / san0 / san5 / san25 / san70 (EC P-256 leaves) and rsa (RSA-2048 leaf under an intermediate, trust
    bundle of 13 roots): everything under one root so that any two sets accept each other."""
    man = os.path.join(PKI, "manifest.json")
    if not force and os.path.exists(man):
        try:
            m = json.load(open(man))
            made = datetime.datetime.fromisoformat(m["made"])
            if abs((datetime.datetime.utcnow() - made).total_seconds()) < 20 * 3600 and \
                    all(os.path.exists(os.path.join(PKI, s, f)) for s in m["sets"] for f in ("cert.pem", "key.pem", "tc.pem")):
                return m
        except Exception:  # noqa: BLE001
            pass
    from cryptography import x509
    from cryptography.hazmat.primitives import hashes, serialization
    from cryptography.hazmat.primitives.asymmetric import ec, rsa
    from cryptography.x509.oid import NameOID
    now = datetime.datetime.utcnow().replace(microsecond=0)
    day = datetime.timedelta(days=1)

    def name(cn):
        return x509.Name([x509.NameAttribute(NameOID.COMMON_NAME, cn)])

    def pem_c(c):
        return c.public_bytes(serialization.Encoding.PEM)

    def pem_k(k):
        return k.private_bytes(serialization.Encoding.PEM, serialization.PrivateFormat.PKCS8, serialization.NoEncryption())

    def ca(cn, issuer=None, issuer_key=None):
        k = ec.generate_private_key(ec.SECP256R1())
        b = (x509.CertificateBuilder().subject_name(name(cn)).issuer_name(issuer.subject if issuer else name(cn))
             .public_key(k.public_key()).serial_number(x509.random_serial_number())
             .not_valid_before(now - 30 * day).not_valid_after(now + 3650 * day)
             .add_extension(x509.BasicConstraints(ca=True, path_length=None), critical=True)
             .add_extension(x509.SubjectKeyIdentifier.from_public_key(k.public_key()), critical=False))
        return b.sign(issuer_key or k, hashes.SHA256()), k

    def leaf(cn, issuer, issuer_key, dns, emails=(), dirs=(), k=None):
        k = k or ec.generate_private_key(ec.SECP256R1())
        b = (x509.CertificateBuilder().subject_name(name(cn)).issuer_name(issuer.subject)
             .public_key(k.public_key()).serial_number(x509.random_serial_number())
             .not_valid_before(now - 2 * day).not_valid_after(now + 365 * day)
             .add_extension(x509.BasicConstraints(ca=False, path_length=None), critical=True)
             .add_extension(x509.SubjectKeyIdentifier.from_public_key(k.public_key()), critical=False))
        gn = [x509.DNSName(d) for d in dns] + [x509.RFC822Name(e) for e in emails] + \
             [x509.DirectoryName(name(d)) for d in dirs]
        if gn:
            b = b.add_extension(x509.SubjectAlternativeName(gn), critical=False)
        return b.sign(issuer_key, hashes.SHA256()), k

    tmp = PKI + ".tmp%d" % os.getpid()
    shutil.rmtree(tmp, ignore_errors=True)
    os.makedirs(tmp)
    root, root_k = ca("c14-root")
    inter, inter_k = ca("c14-inter", root, root_k)
    sets = {}

    def write(nm, chain, k, tc, **meta):
        d = os.path.join(tmp, nm)
        os.makedirs(d)
        data = dict(cert=b"".join(pem_c(c) for c in chain), key=pem_k(k), tc=b"".join(pem_c(c) for c in tc))
        for f, v in data.items():
            with open(os.path.join(d, f + ".pem"), "wb") as fp:
                fp.write(v)
        sets[nm] = dict(meta, sizes={f: len(v) for f, v in data.items()})

    c, k = leaf("small.verif.test", root, root_k, ["small.verif.test", "peer.verif.test"])
    write("small", [c], k, [root], dns_sans=2)
    c, k = leaf("peer.verif.test", root, root_k, [])
    write("san0", [c], k, [root], dns_sans=0)
    for n in (5, 25, 70):
        c, k = leaf("many%d.verif.test" % n, root, root_k, ["n%03d.many.verif.test" % i for i in range(n)],
                    emails=["u%d@verif.test" % i for i in range(min(n, 5))], dirs=["dir%d" % i for i in range(min(n, 3))])
        write("san%d" % n, [c], k, [root], dns_sans=n)
    rk = rsa.generate_private_key(public_exponent=65537, key_size=2048)
    c, k = leaf("rsa.verif.test", inter, inter_k, ["rsa.verif.test", "peer.verif.test", "n000.many.verif.test"], k=rk)
    extra = [ca("c14-extra-root-%d" % i)[0] for i in range(12)]
    write("rsa", [c, inter], k, [root] + extra, dns_sans=3, key="rsa2048")
    m = dict(made=now.isoformat(), sets=sets)
    with open(os.path.join(tmp, "manifest.json"), "w") as f:
        json.dump(m, f, indent=1)
    shutil.rmtree(PKI, ignore_errors=True)
    os.replace(tmp, PKI)
    return m


def prepare_replay(art):
    """run_check.py --replay: the artefact's parameters name certificate directories under build/run/c14-pki."""
    make_pki()
    harnesses.build_explorer_harness("h_ctl", variant=art.get("build", "asan"), **BUILD_KW)


BUILD_KW = dict(extra_srcs=["harness/h_ctl_xcmc.c"], extra_wraps=["xcm_attr_get", "xcm_attr_get_all"])


def cert(nm):
    return os.path.join(PKI, nm)


# ---- configurations ---------------------------------------------------------------------------------------
def targets():
    """(label, params) of every target socket x attribute-set size that the input enumeration visits."""
    t = []
    for tp in ("ux", "uxf", "tcp"):
        for target in ("srv", "a", "b"):
            for big in ((0, 1) if tp != "tcp" else (0,)):
                t.append("tp=%s,target=%s,big=%d" % (tp, target, big))
    small = "scert=%s,ccert=%s" % (cert("small"), cert("small"))
    for target in ("srv", "a", "b"):
        t.append("tp=tls,target=%s,big=0,%s" % (target, small))
    # by-value credentials of several KB (RSA key, chain, 13-root bundle), 70-name peer-name lists
    rsa = "scert=%s,ccert=%s" % (cert("rsa"), cert("rsa"))
    for target in ("srv", "a", "b"):
        t.append("tp=tls,target=%s,big=1,names=70,%s" % (target, rsa))
    t.append("tp=tls,target=a,big=1,scert=%s,ccert=%s" % (cert("small"), cert("small")))
    # peer certificates with 0 / 5 / 25 / 70 DNS SANs, seen by the connecting side (server's certificate) and by the
    # accepted side (client's certificate)
    for n in (0, 5, 25, 70):
        t.append("tp=tls,target=a,big=0,scert=%s,ccert=%s,list=tls.peer.cert.san.dns[%d]" %
                 (cert("san%d" % n), cert("small"), max(n - 1, 0)))
    for n in (5, 70):
        t.append("tp=tls,target=b,big=0,scert=%s,ccert=%s" % (cert("small"), cert("san%d" % n)))
    return t


def configs(tier):
    q = tier == "quick"
    c = []
    tg = targets()
    core = [t for t in tg if ("tp=tcp" in t and "target=b" not in t) or ("tp=ux," in t and "target=b,big=1" in t) or
            ("tp=uxf" in t and "target=srv,big=1" in t) or ("tp=tls" in t and ("names=70" in t or "san5" in t or "san70" in t))]
    deep = [t for t in core if "tp=tcp,target=a" in t or ("san5" in t and "target=a" in t) or ("names=70" in t and "target=srv" in t)]
    # (i) inputs: every session of one raw client, served when the traffic is over (one schedule per session)
    for t in tg:
        L = (2 if t in core else 1) if q else (3 if t in deep else 2)
        c.append(("%s,c0=r*%d,alpha=%s,rel=99" % (t, L, ALPHA), 0, "asan"))
    # ... and released in the middle of the traffic (all orders the blocked tasks allow)
    mid = [t for t in core if "tp=tcp" in t or "san5" in t or ("names=70" in t and "target=srv" in t)]
    for t in mid:
        c.append(("%s,c0=r*%d,alpha=%s,rel=3" % (t, 1 if q else 2, ALPHA), 0, "asan"))
    # every session of the client library
    for t in (core if q else tg):
        c.append(("%s,c0=x*%d,rel=99" % (t, 2 if q or t not in core else 3), 0, "asan"))
    # a FULL session table: two concurrent sessions with every pair of requests (get-all / get / sensitive / unknown /
    # unknown type / unterminated name, or none) in the two slots, a third client knocking; served through idle
    # xcm_receive / xcm_accept calls whose value and errno are compared (passivity)
    small = "scert=%s,ccert=%s" % (cert("small"), cert("small"))
    full = ["tp=tcp,target=a,c0=r*1,c1=r*1,c2=r:a", "tp=tcp,target=srv,c0=r*1,c1=r*1", "tp=ux,target=b,big=0,c0=r*1,c1=r*1",
            "tp=tls,target=srv,big=0,%s,c0=r*1,c1=r*1" % small, "tp=tls,target=a,big=0,%s,c0=r*1,c1=r*1" % small]
    if not q:
        full += ["tp=tls,target=b,big=0,%s,c0=r*1,c1=r*1,c2=r:g" % small, "tp=tcp,target=b,c0=r*1,c1=x*1,c2=r:a",
                 "tp=ux,target=srv,big=0,c0=r*1,c1=r*1,c2=r:a", "tp=tcp,target=a,c0=r*1,c1=r*1,rel=3"]
    for t in full:
        c.append(("%s,alpha=agkutn%s" % (t, "" if "rel=" in t else ",rel=99"), 0, "asan"))
    # (ii) schedules: concurrent sessions x interleavings x EAGAIN answers
    s5 = "tp=tls,target=a,big=0,scert=%s,ccert=%s" % (cert("san5"), cert("small"))
    rsa = "tp=tls,target=srv,big=1,names=70,scert=%s,ccert=%s" % (cert("rsa"), cert("rsa"))
    if q:
        sched = [
            ("tp=tcp,target=a,c0=r:ga,rel=0", 1), ("tp=tcp,target=a,c0=r:ga,rel=3,pumpn=256", 1),
            ("tp=tcp,target=a,c0=r:Xg,rel=2,svc=none", 1), ("tp=tcp,target=srv,c0=x:ag,c1=r:t,rel=0", 1),
            ("tp=ux,target=b,big=1,c0=r:g,c1=r:k,c2=r:x,rel=99", 1), ("tp=tcp,target=a,c0=r:g,c1=r:m,c2=x:g,rel=3", 0),
            (s5 + ",c0=r:gl,rel=3", 1), (rsa + ",c0=r:g,c1=r:b,rel=99", 0),
        ]
        c += [(p, d, "asan") for p, d in sched]
    else:
        sched = [
            ("tp=tcp,target=a,c0=r:ga,rel=0", 2), ("tp=tcp,target=a,c0=r:ga,rel=3,pumpn=256", 2),
            ("tp=tcp,target=a,c0=r:Xg,rel=2,svc=none", 1), ("tp=tcp,target=srv,c0=x:ag,c1=r:t,rel=0", 1),
            ("tp=tcp,target=b,c0=r:ng,rel=3", 1), ("tp=ux,target=srv,big=0,c0=r:gg,rel=0,pumpn=256", 1),
            ("tp=ux,target=b,big=1,c0=r:g,c1=r:k,c2=r:x,rel=99", 1), ("tp=tcp,target=a,c0=r:g,c1=r:m,c2=x:g,rel=3", 0),
            ("tp=tcp,target=a,c0=r:g,c1=r:m,c2=x:g,rel=99", 1),
            ("tp=tcp,target=a,c0=r:ga,c1=r:kg,c2=r:xn,rel=99", 0), ("tp=tcp,target=a,c0=r:g,c1=r:k,rel=3", 1),
            (s5 + ",c0=r:gl,rel=3", 1), (s5 + ",c0=x:kg,c1=r:zg,rel=0", 0), (s5 + ",c0=x:kg,c1=r:zg,rel=99", 1),
            (rsa + ",c0=r:g,c1=r:b,rel=99", 1), (rsa + ",c0=r:bg,rel=3,pumpn=256", 1),
        ]
        c += [(p, d, "asan") for p, d in sched]
        # the deepest levels without the sanitizer (an order of magnitude cheaper per execution)
        c += [("tp=tcp,target=a,c0=r:g,rel=0", 3, "plain"), ("tp=tcp,target=a,c0=r:g,c1=r:k,rel=99", 2, "plain"),
              ("tp=tcp,target=a,c0=r:g,c1=r:g,c2=r:g,rel=99", 2, "plain")]
    return c


# ---- result handling --------------------------------------------------------------------------------------
def c14_signature(v):
    """crash/<signal>/in=<api>  ->  C14/app-crash/<what>/at=<first XCM frame> (the API call in progress and the
    signal say nothing about the root cause and vary with the interleaving)."""
    ref = harnesses.refine_crash_signature(v)
    parts = ref.split("/")
    kind = [p for p in parts[3:] if not p.startswith("at=")]
    at = [p for p in parts[3:] if p.startswith("at=")]
    err = v.get("stderr", "")
    what = "/".join(kind) if kind else parts[1]
    m = re.search(r"(READ|WRITE) of size", err)
    if m and "AddressSanitizer" in err:
        what += "-" + m.group(1).lower()
    return "C14/app-crash/%s%s" % (what, ("/" + at[0]) if at else "")


def run(chk, tier, jobs, deadline):
    chk.assumptions += ASSUME
    make_pki()
    q = tier == "quick"
    dl = deadline or (420 if q else 1700)
    t_end = time.time() + dl
    run_root = os.path.join(build.BUILD, "run", "c14-%d" % os.getpid())
    os.makedirs(run_root, exist_ok=True)
    exes = {}
    tot = dict(executions=0, states=0, transitions=0, outcomes=0, points=0)
    counters = [0] * 24
    per_cfg, samples = [], []
    completed_all = True
    try:
        cfgs = configs(tier)
        if os.environ.get("C14_CONFIG_FILTER"):
            # development aid (mutant demos): run only the configurations matching the regular expression
            cfgs = [c for c in cfgs if re.search(os.environ["C14_CONFIG_FILTER"], c[0])]
            chk.assumptions.append("C14_CONFIG_FILTER=%s: only %d configurations of the tier were run" %
                                   (os.environ["C14_CONFIG_FILTER"], len(cfgs)))
        for params, bound, variant in cfgs:
            if variant not in exes:
                exes[variant] = harnesses.build_explorer_harness("h_ctl", variant=variant, **BUILD_KW)
            left = t_end - time.time()
            if left < 3:
                chk.deadline_hit = True
                completed_all = False
                per_cfg.append(dict(params=params, bound=bound, build=variant, skipped="tier deadline reached"))
                continue
            env = harnesses.asan_env() if variant == "asan" else dict(os.environ)
            env["C14_RUN"] = run_root
            res = harnesses.explore(exes[variant], params, bound, left, jobs=jobs, env=env)
            keep = []
            for v in res.get("violations", []):
                if v.get("crash") and "watchdog" in v["signature"] and not v.get("reproduced"):
                    # an execution starved of CPU for 60 s on an overloaded machine: not a verdict, a hole in the coverage
                    chk.info("watchdog", "an execution was killed by the 60 s watchdog and ran normally when repeated (machine "
                             "overloaded); it is not counted as explored")
                    completed_all = False
                    continue
                if v.get("crash"):
                    v["signature"] = c14_signature(v)
                    v["crash"] = False
                keep.append(v)
            res["violations"] = keep
            harnesses.merge_into(chk, res, PREFIXES, params, build_variant=variant)
            tot["executions"] += res.get("executions", 0)
            tot["states"] += res.get("states", 0)
            tot["transitions"] += res.get("transitions", 0)
            tot["outcomes"] += res.get("distinct_outcomes", 0)
            tot["points"] += res.get("points_total", 0)
            for i, cnt in enumerate(res.get("counters", [])[:24]):
                counters[i] += cnt
            if res.get("completed_bound", -1) < bound:
                completed_all = False
            per_cfg.append(dict(params=params.replace(PKI + "/", ""), bound=bound, build=variant,
                                completed_bound=res.get("completed_bound"), executions=res.get("executions"),
                                states=res.get("states"), transitions=res.get("transitions"),
                                distinct_outcomes=res.get("distinct_outcomes"),
                                executions_per_level=res.get("executions_per_level"),
                                max_choice_points=res.get("max_points"), wall_s=round(res.get("elapsed", 0), 2)))
            for s in res.get("samples", [])[:1]:
                if len(samples) < 12:
                    samples.append(dict(scenario=params.replace(PKI + "/", ""), execution=s))
    finally:
        shutil.rmtree(run_root, ignore_errors=True)
    chk.add_cov(states=tot["states"], transitions=tot["transitions"], traces_validated_against_impl=tot["executions"],
                executions=tot["executions"], distinct_outcomes_summed=tot["outcomes"], choice_points_total=tot["points"],
                configurations=len(per_cfg), per_configuration=per_cfg, samples=samples,
                exhaustive=completed_all and not chk.deadline_hit,
                in_process_answers_recorded=counters[0], pumps=counters[2], replies_checked=counters[3],
                requests_sent=counters[4], idle_application_calls_compared=counters[6], session_alphabet=ALPHA, max_session_items=2 if q else 3,
                max_concurrent_sessions=3)
