#!/bin/bash
# usage: run_thorough_chain.sh <tag> <checks...>   (evidence and replays go to build/thorough-evidence)
tag=$1; shift
cd /verif
for c in "$@"; do
  t0=$(date +%s)
  VERIF_EVIDENCE_DIR=/verif/build/thorough-evidence /usr/bin/python3 engine/run_check.py $c --tier thorough > build/logs/$c.t7.log 2>&1
  rc=$?
  echo "$c rc=$rc wall=$(( $(date +%s) - t0 ))s $(grep -c '^VIOLATION' build/logs/$c.t7.log) viol; $(tail -1 build/logs/$c.t7.log | grep -o '"exhaustive": [a-z]*') $(tail -1 build/logs/$c.t7.log | grep -o '"deadline_hit": [a-z]*')" >> build/logs/t7.$tag.summary
done
