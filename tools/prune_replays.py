#!/usr/bin/python3
"""keep only the replay artefacts that known_findings.json (status known) refers to"""
import json, os
V='/verif'
k=json.load(open(V+'/known_findings.json'))['findings']
keep={os.path.basename(e['replay']) for e in k if e.get('status')=='known' and e.get('replay')}
n=0
for f in os.listdir(V+'/replays'):
    if f not in keep:
        os.unlink(os.path.join(V,'replays',f)); n+=1
missing=[f for f in keep if not os.path.exists(os.path.join(V,'replays',f))]
print("removed",n,"kept",len(keep)-len(missing),"missing",missing)
