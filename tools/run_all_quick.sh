#!/bin/bash
cd /verif
for c in "$@"; do
  /usr/bin/time -f "%e s" /usr/bin/python3 engine/run_check.py $c --tier quick > build/logs/$c.quick.log 2>&1
  echo "$c rc=$? $(grep -c VIOLATION build/logs/$c.quick.log) viol; $(grep -h 'wall=' build/logs/$c.quick.log | sed 's/.*wall=/wall=/')" >> build/logs/all_quick.summary
done
